// C12 - Timeouts fire on time, keep the connection usable and orphan the late reply.
//
// "An operation given a timeout returns a timeout error at that deadline if no response has
//  arrived and returns the response if it arrives earlier [...] for all mixes of timed and
//  untimed concurrent operations."
//
// What is shown here: the connection task (LdapConnAsync::turn) writes a request with
// `self.stream.send(..).await` *inside* the body of a select! arm. While that write is pending
// (a request larger than what the transport takes at once, on a link/peer that takes it slowly)
// the task reads nothing from the socket. A response to ANOTHER, timed operation which arrives
// during that write - well before that operation's deadline - stays unread in the socket, and
// the timed operation fails with a timeout although its response arrived in time.
//
// The scripted server is a correct LDAP peer: it answers the Compare 300 ms after it has read
// it, and it takes the big Add request at a limited rate (a slow uplink), answering it with
// success once it is complete.
//
// `control_...` runs the same script without the concurrent Add and passes, which shows that the
// script and the deadline are fine; `timed_op_gets_its_response_...` fails on the unchanged
// source (the Compare returns LdapError::Timeout at its 5 s deadline although the server wrote
// its response about 1 s after the request). With a throw-away patch of the connection task
// which keeps reading and routing responses while the request is flushed, both tests pass.

use std::collections::HashSet;
use std::sync::atomic::{AtomicBool, Ordering};
use std::sync::Arc;
use std::time::{Duration, Instant};

use ldap3::{LdapConnAsync, LdapError};
use tokio::io::{AsyncReadExt, AsyncWriteExt};
use tokio::net::{TcpSocket, TcpStream};
use tokio::sync::oneshot;

/// Deadline given to the timed Compare.
const A_TIMEOUT: Duration = Duration::from_secs(5);
/// The server answers the Compare this long after it has it (and, in the main test, after the
/// first octets of the Add request have shown up).
const A_SERVER_DELAY: Duration = Duration::from_millis(300);
/// Size of the attribute value in the untimed Add: more than the socket buffers of the
/// connection can hold (the server asks for a small receive buffer; a loopback connection left
/// to itself would buffer several megabytes), so that the write can't complete unless the
/// server reads.
const BIG: usize = 8 * 1024 * 1024;
/// Hang guard for the whole test.
const GUARD: Duration = Duration::from_secs(120);

/// Read the tag and length octets of an LDAPMessage; return the length of its contents.
async fn read_header(s: &mut TcpStream) -> usize {
    let mut h = [0u8; 2];
    s.read_exact(&mut h).await.expect("server: header");
    assert_eq!(h[0], 0x30, "server: LDAPMessage is a SEQUENCE");
    if h[1] & 0x80 == 0 {
        h[1] as usize
    } else {
        let n = (h[1] & 0x7f) as usize;
        let mut l = vec![0u8; n];
        s.read_exact(&mut l).await.expect("server: long length");
        l.iter().fold(0usize, |a, b| (a << 8) | *b as usize)
    }
}

/// messageID of a message whose contents start with `02 01 xx`.
fn msgid(start: &[u8]) -> u8 {
    assert_eq!(&start[..2], &[0x02, 0x01], "server: one-octet message id");
    start[2]
}

fn result_msg(id: u8, op_tag: u8, rc: u8) -> Vec<u8> {
    vec![
        0x30, 0x0c, 0x02, 0x01, id, op_tag, 0x07, 0x0a, 0x01, rc, 0x04, 0x00, 0x04, 0x00,
    ]
}

struct Script {
    port: u16,
    got_a: oneshot::Receiver<()>,
    a_answered_at: oneshot::Receiver<Instant>,
    a_over: Arc<AtomicBool>,
    finished: oneshot::Sender<()>,
}

async fn start_server(with_big: bool) -> Script {
    let sock = TcpSocket::new_v4().unwrap();
    sock.set_recv_buffer_size(64 * 1024).unwrap();
    sock.bind("127.0.0.1:0".parse().unwrap()).unwrap();
    let listener = sock.listen(4).unwrap();
    let port = listener.local_addr().unwrap().port();
    let (got_a_tx, got_a) = oneshot::channel();
    let (ans_tx, a_answered_at) = oneshot::channel();
    let (finished, finished_rx) = oneshot::channel::<()>();
    let a_over = Arc::new(AtomicBool::new(false));
    let a_over_srv = a_over.clone();
    tokio::spawn(async move {
        let (mut s, _) = listener.accept().await.unwrap();
        // 1. the timed Compare, read completely
        let len = read_header(&mut s).await;
        let mut body = vec![0u8; len];
        s.read_exact(&mut body).await.unwrap();
        let id_a = msgid(&body);
        assert_eq!(body[3], 0x6e, "server: first request is a CompareRequest");
        got_a_tx.send(()).unwrap();
        if with_big {
            // 2. wait until the first octets of the Add request are there: from now on the
            // connection task is inside the write of that request, and it can't finish it
            // before this server has read (almost) all of it.
            let mut one = [0u8; 1];
            assert_eq!(s.peek(&mut one).await.unwrap(), 1);
        }
        // 3. answer the Compare (compareTrue), long before its deadline
        tokio::time::sleep(A_SERVER_DELAY).await;
        s.write_all(&result_msg(id_a, 0x6f, 6)).await.unwrap();
        s.flush().await.unwrap();
        ans_tx.send(Instant::now()).unwrap();
        if with_big {
            // 4. take the Add request at the speed of a slow uplink (about 200 kB/s) for as long
            // as the Compare is still undecided, then at full speed; answer it with success.
            let len = read_header(&mut s).await;
            let mut start = [0u8; 3];
            s.read_exact(&mut start).await.unwrap();
            let id_b = msgid(&start);
            let mut left = len - 3;
            let mut buf = vec![0u8; 1024 * 1024];
            while left > 0 {
                let slow = !a_over_srv.load(Ordering::SeqCst);
                let want = left.min(if slow { 4 * 1024 } else { buf.len() });
                let n = s.read(&mut buf[..want]).await.unwrap();
                assert!(n > 0, "server: client closed in the middle of the Add request");
                left -= n;
                if slow {
                    tokio::time::sleep(Duration::from_millis(20)).await;
                }
            }
            s.write_all(&result_msg(id_b, 0x69, 0)).await.unwrap();
            s.flush().await.unwrap();
        }
        // keep the connection open until the test is over
        let _ = finished_rx.await;
    });
    Script {
        port,
        got_a,
        a_answered_at,
        a_over,
        finished,
    }
}

async fn scenario(with_big: bool) {
    let script = start_server(with_big).await;
    let (conn, ldap) = LdapConnAsync::new(&format!("ldap://127.0.0.1:{}", script.port))
        .await
        .unwrap();
    ldap3::drive!(conn);
    let mut ldap_a = ldap.clone();
    let mut ldap_b = ldap.clone();

    // The timed operation.
    let t_a = tokio::spawn(async move {
        let started = Instant::now();
        let res = ldap_a
            .with_timeout(A_TIMEOUT)
            .compare("cn=a,dc=example,dc=org", "cn", "a")
            .await;
        (res, started, Instant::now())
    });
    // The server has read it...
    script.got_a.await.unwrap();
    // ...and only now the untimed operation with the big request is issued on another handle.
    let t_b = if with_big {
        Some(tokio::spawn(async move {
            ldap_b
                .add(
                    "cn=big,dc=example,dc=org",
                    vec![(b"jpegPhoto".to_vec(), HashSet::from([vec![0x55u8; BIG]]))],
                )
                .await
        }))
    } else {
        None
    };

    let (res_a, a_started, a_ended) = t_a.await.unwrap();
    script.a_over.store(true, Ordering::SeqCst);
    let a_answered_at = script.a_answered_at.await.unwrap();
    let res_b = match t_b {
        Some(t_b) => Some(t_b.await.unwrap()),
        None => None,
    };

    let answered_after = a_answered_at.saturating_duration_since(a_started);
    assert!(
        answered_after + Duration::from_secs(1) < A_TIMEOUT,
        "test setup: the server answered the Compare only after {:?}",
        answered_after
    );
    match res_a {
        Ok(cmp) => assert_eq!(cmp.0.rc, 6, "the Compare got a result which isn't its own"),
        Err(LdapError::Timeout { .. }) => panic!(
            "C12 demands that an operation given a timeout returns its response if the response \
             arrives before the deadline, whatever untimed operations run concurrently. The \
             server wrote the Compare's response {:?} after the Compare was issued, deadline \
             {:?}; the Compare nevertheless returned a timeout error after {:?}: the connection \
             task was in the middle of writing the other handle's Add request and read nothing \
             from the socket meanwhile.",
            answered_after,
            A_TIMEOUT,
            a_ended.duration_since(a_started)
        ),
        Err(e) => panic!("the Compare failed in an unexpected way: {:?}", e),
    }
    if let Some(res_b) = res_b {
        let res_b = res_b.expect("the untimed Add must get its result");
        assert_eq!(res_b.rc, 0, "the untimed Add must succeed");
    }
    // The connection is still good for a later operation? Not needed for the point made here.
    let _ = script.finished.send(());
}

#[tokio::test(flavor = "multi_thread", worker_threads = 2)]
async fn control_timed_op_alone_gets_its_response() {
    tokio::time::timeout(GUARD, scenario(false))
        .await
        .expect("hang guard");
}

#[tokio::test(flavor = "multi_thread", worker_threads = 2)]
async fn timed_op_gets_its_response_while_another_request_is_being_written() {
    tokio::time::timeout(GUARD, scenario(true))
        .await
        .expect("hang guard");
}
