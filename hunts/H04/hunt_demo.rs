// C04 - Every operation terminates; losing the connection fails all pending work.
//
//   "... when ... the client unbinds or drops its last handle, at any point in any
//    exchange, each operation or stream still waiting for a response returns an error
//    (it never hangs ...), and later operations on the handle fail immediately.
//    Unbind and dropping the last handle close the transport."
//
// Demonstration: over TLS (ldaps://, the default `tls` feature), `Ldap::unbind()` needs the
// co-operation of the peer. The connection task handles Unbind by writing the request, calling
// `shutdown()` on the transport and then `close()` on the framed stream, and only afterwards
// answers the caller and leaves its loop. On a TLS transport the first call sends the
// close_notify alert; the second one (`Framed::close()` -> `poll_shutdown()` again ->
// a second SSL_shutdown) waits for the *peer's* close_notify. A server that has stopped
// answering (stalled, overloaded, busy with a long request, cut off by the network ...) -
// which is exactly the situation in which a client gives up and unbinds - never sends it.
// Then:
//   * `unbind()` never returns,
//   * the operation that was waiting for a response never returns (no error, just a hang),
//   * the driver future (`LdapConnAsync::drive()`) never completes,
//   * the TCP connection is never closed.
//
// The same exchange over plain TCP (first test) behaves as the property demands, which shows
// that the scripted peer is not the problem: it reads everything and simply never answers.

use std::io::Read;
use std::net::{TcpListener, TcpStream};
use std::sync::mpsc;
use std::thread;
use std::time::Duration;

use ldap3::{LdapConnAsync, LdapConnSettings};

const GUARD: Duration = Duration::from_secs(6);

const CERT: &[u8] = include_bytes!("../data/tls/cert.pem");
const KEY: &[u8] = include_bytes!("../data/tls/key.pem");

/// What the silent peer observed.
#[derive(Debug, Default)]
struct PeerReport {
    /// All application bytes received from the client.
    received: Vec<u8>,
    /// TLS only: the client's close_notify was received (TLS-level end of data).
    tls_closed_by_client: bool,
    /// The client closed (or reset) the TCP connection within the guard time.
    tcp_closed_by_client: bool,
}

fn contains(h: &[u8], n: &[u8]) -> bool {
    h.windows(n.len()).any(|w| w == n)
}

/// Read whatever arrives until EOF/reset; `true` if the end of the TCP stream was seen
/// before the guard time ran out.
fn drain_tcp(tcp: &mut TcpStream, sink: &mut Vec<u8>) -> bool {
    tcp.set_read_timeout(Some(GUARD)).unwrap();
    let mut buf = [0u8; 4096];
    loop {
        match tcp.read(&mut buf) {
            Ok(0) => return true,
            Ok(n) => sink.extend_from_slice(&buf[..n]),
            Err(e)
                if e.kind() == std::io::ErrorKind::WouldBlock
                    || e.kind() == std::io::ErrorKind::TimedOut =>
            {
                return false
            }
            Err(_) => return true, // reset: closed as well
        }
    }
}

/// A peer which accepts one connection, reads everything the client sends, never answers
/// anything and never closes the connection on its own initiative. It keeps the socket open
/// until the test tells it to go away.
fn silent_peer(tls: bool) -> (u16, mpsc::Receiver<PeerReport>, mpsc::Sender<()>) {
    let listener = TcpListener::bind("127.0.0.1:0").unwrap();
    let port = listener.local_addr().unwrap().port();
    let (report_tx, report_rx) = mpsc::channel();
    let (bye_tx, bye_rx) = mpsc::channel::<()>();
    thread::spawn(move || {
        let (mut tcp, _) = listener.accept().unwrap();
        let mut report = PeerReport::default();
        if tls {
            let identity = native_tls::Identity::from_pkcs8(CERT, KEY).expect("identity");
            let acceptor = native_tls::TlsAcceptor::new(identity).expect("acceptor");
            let mut stream = acceptor.accept(tcp).expect("TLS accept");
            stream.get_ref().set_read_timeout(Some(GUARD)).unwrap();
            let mut buf = [0u8; 4096];
            loop {
                match stream.read(&mut buf) {
                    Ok(0) => {
                        // close_notify from the client: no more LDAP data will come
                        report.tls_closed_by_client = true;
                        break;
                    }
                    Ok(n) => report.received.extend_from_slice(&buf[..n]),
                    Err(_) => break,
                }
            }
            // We do NOT answer with our own close_notify and do NOT close the socket.
            // Does the client close the TCP connection?
            let mut junk = vec![];
            report.tcp_closed_by_client = drain_tcp(stream.get_mut(), &mut junk);
            let _ = report_tx.send(report);
            let _ = bye_rx.recv_timeout(Duration::from_secs(60));
            drop(stream);
        } else {
            let mut received = vec![];
            report.tcp_closed_by_client = drain_tcp(&mut tcp, &mut received);
            report.received = received;
            let _ = report_tx.send(report);
            let _ = bye_rx.recv_timeout(Duration::from_secs(60));
            drop(tcp);
        }
    });
    (port, report_rx, bye_tx)
}

async fn unbind_with_a_pending_operation(tls: bool) {
    let what = if tls { "ldaps (TLS)" } else { "ldap (plain TCP)" };
    let (port, report_rx, bye_tx) = silent_peer(tls);
    let url = format!(
        "{}://localhost:{}",
        if tls { "ldaps" } else { "ldap" },
        port
    );
    let settings = LdapConnSettings::new().set_no_tls_verify(true);
    let (conn, mut ldap) = tokio::time::timeout(GUARD, LdapConnAsync::with_settings(settings, &url))
        .await
        .expect("connection establishment timed out")
        .expect("connection establishment failed");
    let driver = tokio::spawn(async move { conn.drive().await });

    // An operation which the server receives, but does not answer.
    let mut other = ldap.clone();
    let pending = tokio::spawn(async move { other.simple_bind("cn=someone", "secret").await });
    // Let the Bind request be written before the Unbind is issued.
    tokio::time::sleep(Duration::from_millis(300)).await;

    // The client gives up on the silent server and unbinds.
    let unbind_res = tokio::time::timeout(GUARD, ldap.unbind()).await;

    // The other observations are collected before anything is asserted, so that the
    // failure message shows the whole picture.
    let pending_res = tokio::time::timeout(GUARD, pending).await;
    let driver_res = tokio::time::timeout(GUARD, driver).await;
    let later_res = tokio::time::timeout(GUARD, ldap.simple_bind("cn=later", "x")).await;
    let report = tokio::task::spawn_blocking(move || report_rx.recv_timeout(GUARD * 3))
        .await
        .unwrap()
        .expect("no report from the scripted peer");
    let _ = bye_tx.send(());

    // The peer did get both requests (and, over TLS, the client's close_notify), so the
    // client is not waiting for anything of its own to go out.
    assert!(
        contains(&report.received, &[0x02, 0x01, 0x01, 0x60]),
        "{}: the peer never received the BindRequest (id 1); received: {:02x?}",
        what,
        report.received
    );
    assert!(
        contains(&report.received, &[0x02, 0x01, 0x02, 0x42, 0x00]),
        "{}: the peer never received the UnbindRequest (id 2); received: {:02x?}",
        what,
        report.received
    );

    let mut violations = vec![];
    match unbind_res {
        Err(_) => violations.push(format!(
            "unbind() must complete (C04: every operation terminates; Unbind closes the transport), \
             but it was still pending {:?} after the peer had received the UnbindRequest{}",
            GUARD,
            if report.tls_closed_by_client { " and the client's TLS close_notify" } else { "" }
        )),
        Ok(r) => println!("{}: unbind() returned {:?}", what, r),
    }
    match pending_res {
        Err(_) => violations.push(format!(
            "the Bind that was waiting for its response when the client unbound must return an \
             error (C04: each operation still waiting for a response returns an error, it never \
             hangs), but it was still pending after {:?}",
            GUARD
        )),
        Ok(Ok(Ok(res))) => violations.push(format!(
            "the unanswered Bind must return an error, but it returned a result nobody sent: {:?}",
            res
        )),
        Ok(r) => println!("{}: pending bind returned {:?}", what, r),
    }
    match driver_res {
        Err(_) => violations.push(format!(
            "the connection driver must complete after Unbind (C04: the connection driver itself \
             completes), but LdapConnAsync::drive() was still running after {:?}",
            GUARD
        )),
        Ok(r) => println!("{}: driver returned {:?}", what, r),
    }
    match later_res {
        Err(_) => violations.push(
            "an operation issued on the handle after Unbind must fail immediately, but it hung"
                .to_string(),
        ),
        Ok(Ok(res)) => violations.push(format!(
            "an operation issued after Unbind must fail, but it returned {:?}",
            res
        )),
        Ok(Err(e)) => println!("{}: later bind failed as it should: {}", what, e),
    }
    if !report.tcp_closed_by_client {
        violations.push(format!(
            "Unbind must close the transport (C04), but the peer saw the TCP connection still \
             open {:?} after it had received the UnbindRequest{}",
            GUARD,
            if report.tls_closed_by_client { " and the TLS close_notify" } else { "" }
        ));
    }
    assert!(
        violations.is_empty(),
        "\n{} connection, peer that reads everything, never answers and does not close first.\n\
         C04 violated:\n - {}\n",
        what,
        violations.join("\n - ")
    );
}

/// Control: over plain TCP the library does what C04 demands with this very peer.
#[tokio::test(flavor = "multi_thread", worker_threads = 2)]
async fn plain_tcp_unbind_does_not_need_the_peer() {
    unbind_with_a_pending_operation(false).await;
}

/// The demonstration: over TLS everything hangs until the peer chooses to react.
#[tokio::test(flavor = "multi_thread", worker_threads = 2)]
async fn tls_unbind_does_not_need_the_peer() {
    unbind_with_a_pending_operation(true).await;
}
