// Review W04: checks run against the six repairs under review (8e55f11, 2f3cbdd, ef24d4d,
// 86e3f1a, f8635ef, 7a2e96f). No defect was found; every test here PASSES on the source as it is.
// Run: CARGO_NET_OFFLINE=true cargo test --offline --test review_demo -- --test-threads=1 --nocapture
// (the module `verif` additionally needs RUSTFLAGS="--cfg ldap3_verif"; the TLS checks need the
// openssl command line tool to make a throw-away certificate and are skipped without it).
#![allow(dead_code)]

use std::time::Duration;

use async_trait::async_trait;
use ldap3::adapters::{Adapter, EntriesOnly, PagedResults};
use ldap3::result::{LdapResult, Result};
use ldap3::{LdapConnAsync, ResultEntry, Scope, SearchStream};
use tokio::io::{AsyncReadExt, AsyncWriteExt};
use tokio::net::{TcpListener, TcpStream};

// ---------- BER helpers ----------
pub fn tlv(tag: u8, content: &[u8]) -> Vec<u8> {
    let mut v = vec![tag];
    let n = content.len();
    if n < 128 {
        v.push(n as u8);
    } else if n < 256 {
        v.push(0x81);
        v.push(n as u8);
    } else {
        v.push(0x82);
        v.push((n >> 8) as u8);
        v.push(n as u8);
    }
    v.extend_from_slice(content);
    v
}
pub fn int(i: i64) -> Vec<u8> {
    let mut b = i.to_be_bytes().to_vec();
    while b.len() > 1 && ((b[0] == 0 && b[1] & 0x80 == 0) || (b[0] == 0xff && b[1] & 0x80 != 0)) {
        b.remove(0);
    }
    tlv(0x02, &b)
}
pub fn octs(s: &[u8]) -> Vec<u8> {
    tlv(0x04, s)
}
pub fn cat(parts: &[Vec<u8>]) -> Vec<u8> {
    parts.iter().flatten().copied().collect()
}
pub fn msg(id: i64, op: Vec<u8>, ctrls: Option<Vec<u8>>) -> Vec<u8> {
    let mut c = cat(&[int(id), op]);
    if let Some(ct) = ctrls {
        c.extend(tlv(0xA0, &ct));
    }
    tlv(0x30, &c)
}
pub fn result_op(tag: u8, rc: u8) -> Vec<u8> {
    tlv(tag, &cat(&[tlv(0x0A, &[rc]), octs(b""), octs(b"")]))
}
pub fn entry(dn: &str) -> Vec<u8> {
    tlv(0x64, &cat(&[octs(dn.as_bytes()), tlv(0x30, &[])]))
}
pub fn paged_ctrl(cookie: &[u8]) -> Vec<u8> {
    let val = tlv(0x30, &cat(&[int(0), octs(cookie)]));
    tlv(0x30, &cat(&[octs(b"1.2.840.113556.1.4.319"), octs(&val)]))
}
pub fn intermediate() -> Vec<u8> {
    tlv(0x79, &tlv(0x80, b"1.2.3.4"))
}

// read one LDAPMessage from the socket; returns (msgid, op tag, whole bytes)
pub async fn read_msg(s: &mut TcpStream) -> Option<(i64, u8, Vec<u8>)> {
    let mut hdr = [0u8; 2];
    s.read_exact(&mut hdr).await.ok()?;
    let mut all = hdr.to_vec();
    let len = if hdr[1] < 128 {
        hdr[1] as usize
    } else {
        let n = (hdr[1] & 0x7f) as usize;
        let mut lb = vec![0u8; n];
        s.read_exact(&mut lb).await.ok()?;
        all.extend(&lb);
        lb.iter().fold(0usize, |a, &b| (a << 8) | b as usize)
    };
    let mut body = vec![0u8; len];
    s.read_exact(&mut body).await.ok()?;
    all.extend(&body);
    // msgid
    assert_eq!(body[0], 0x02);
    let il = body[1] as usize;
    let id = body[2..2 + il].iter().fold(0i64, |a, &b| (a << 8) | b as i64);
    let optag = body[2 + il];
    Some((id, optag, all))
}

#[derive(Clone, Debug)]
struct Tick(Duration);

#[async_trait]
impl<'a, S, A> Adapter<'a, S, A> for Tick
where
    S: AsRef<str> + Send + Sync + 'a,
    A: AsRef<[S]> + Send + Sync + 'a,
{
    async fn start(
        &mut self,
        stream: &mut SearchStream<'a, S, A>,
        base: &str,
        scope: Scope,
        filter: &str,
        attrs: A,
    ) -> Result<()> {
        stream.start(base, scope, filter, attrs).await
    }
    async fn next(&mut self, stream: &mut SearchStream<'a, S, A>) -> Result<Option<ResultEntry>> {
        loop {
            match tokio::time::timeout(self.0, stream.next()).await {
                Ok(r) => return r,
                Err(_) => continue,
            }
        }
    }
    async fn finish(&mut self, stream: &mut SearchStream<'a, S, A>) -> LdapResult {
        stream.finish().await
    }
}


// A throw-away self-signed identity for the TLS checks; None if openssl(1) isn't there.
fn tls_identity() -> Option<tokio_native_tls::native_tls::Identity> {
    let dir = std::env::temp_dir().join(format!("w04-cert-{}", std::process::id()));
    std::fs::create_dir_all(&dir).ok()?;
    let (k, c) = (dir.join("key.pem"), dir.join("cert.pem"));
    if !c.exists() {
        let st = std::process::Command::new("openssl")
            .args(["req", "-x509", "-newkey", "rsa:2048", "-nodes", "-days", "3", "-subj", "/CN=localhost", "-keyout"])
            .arg(&k)
            .arg("-out")
            .arg(&c)
            .stdout(std::process::Stdio::null())
            .stderr(std::process::Stdio::null())
            .status()
            .ok()?;
        if !st.success() {
            return None;
        }
    }
    tokio_native_tls::native_tls::Identity::from_pkcs8(&std::fs::read(&c).ok()?, &std::fs::read(&k).ok()?).ok()
}

async fn listener() -> (TcpListener, String) {
    let l = TcpListener::bind("127.0.0.1:0").await.unwrap();
    let url = format!("ldap://127.0.0.1:{}", l.local_addr().unwrap().port());
    (l, url)
}

// Paged search, 3 pages of 2 entries, with Tick above and below PagedResults
async fn paged_server(l: TcpListener, delay: Duration) -> Vec<(i64, u8, Vec<u8>)> {
    let (mut s, _) = l.accept().await.unwrap();
    let mut seen = vec![];
    let mut page = 0;
    while let Some((id, tag, all)) = read_msg(&mut s).await {
        seen.push((id, tag, all));
        if tag == 0x63 {
            page += 1;
            tokio::time::sleep(delay).await;
            let mut out = vec![];
            out.extend(msg(id, entry(&format!("cn=e{}a", page)), None));
            out.extend(msg(id, entry(&format!("cn=e{}b", page)), None));
            let cookie: &[u8] = if page < 3 { b"ck" } else { b"" };
            out.extend(msg(id, result_op(0x65, 0), Some(paged_ctrl(cookie))));
            s.write_all(&out).await.unwrap();
        } else if tag == 0x42 {
            break;
        }
    }
    seen
}

#[tokio::test]
async fn paged_with_tick_orders() {
    for order in 0..3 {
        let (l, url) = listener().await;
        let srv = tokio::spawn(paged_server(l, Duration::from_millis(30)));
        let (conn, mut ldap) = LdapConnAsync::new(&url).await.unwrap();
        ldap3::drive!(conn);
        let adapters: Vec<Box<dyn Adapter<_, _>>> = match order {
            0 => vec![
                Box::new(Tick(Duration::from_millis(7))),
                Box::new(PagedResults::new(2)),
            ],
            1 => vec![
                Box::new(PagedResults::new(2)),
                Box::new(Tick(Duration::from_millis(7))),
            ],
            _ => vec![
                Box::new(EntriesOnly::new()),
                Box::new(Tick(Duration::from_millis(7))),
                Box::new(PagedResults::new(2)),
                Box::new(Tick(Duration::from_millis(5))),
            ],
        };
        let mut st = ldap
            .streaming_search_with(adapters, "dc=x", Scope::Subtree, "(a=b)", vec!["dn"])
            .await
            .unwrap();
        let mut n = 0;
        loop {
            match st.next().await {
                Ok(Some(_)) => n += 1,
                Ok(None) => break,
                Err(e) => panic!("order {}: error {:?} after {}", order, e, n),
            }
        }
        let res = st.finish().await;
        println!("order {} n={} res={:?}", order, n, res);
        assert_eq!(n, 6, "order {}", order);
        assert_eq!(res.rc, 0);
        ldap.unbind().await.unwrap();
        let seen = srv.await.unwrap();
        println!("seen ops: {:?}", seen.iter().map(|s| (s.0, s.1)).collect::<Vec<_>>());
    }
}

// ---- unbind with pending ops ----
#[tokio::test]
async fn unbind_fails_pending() {
    let (l, url) = listener().await;
    let srv = tokio::spawn(async move {
        let (mut s, _) = l.accept().await.unwrap();
        let mut seen = vec![];
        while let Some((id, tag, _)) = read_msg(&mut s).await {
            seen.push((id, tag));
            if tag == 0x63 {
                s.write_all(&msg(id, entry("cn=one"), None)).await.unwrap();
            }
        }
        seen
    });
    let (conn, mut ldap) = LdapConnAsync::new(&url).await.unwrap();
    let drv = tokio::spawn(async move { conn.drive().await });
    let mut st = ldap
        .streaming_search("dc=x", Scope::Subtree, "(a=b)", vec!["dn"])
        .await
        .unwrap();
    let mut l2 = ldap.clone();
    let pending = tokio::spawn(async move { l2.delete("cn=x").await });
    tokio::time::sleep(Duration::from_millis(50)).await;
    let mut l3 = ldap.clone();
    l3.with_timeout(Duration::from_secs(5)).unbind().await.unwrap();
    let r = tokio::time::timeout(Duration::from_secs(2), pending).await.expect("pending hangs").unwrap();
    println!("pending delete: {:?}", r.as_ref().err());
    assert!(r.is_err());
    // stream: one entry delivered, then error
    let e1 = tokio::time::timeout(Duration::from_secs(2), st.next()).await.expect("hang");
    println!("next1 {:?}", e1.as_ref().map(|o| o.is_some()));
    let e2 = tokio::time::timeout(Duration::from_secs(2), st.next()).await.expect("hang");
    println!("next2 {:?}", e2.as_ref().map(|o| o.is_some()));
    assert!(e2.is_err());
    let fin = st.finish().await;
    println!("finish {:?}", fin);
    let d = tokio::time::timeout(Duration::from_secs(2), drv).await.expect("driver hangs").unwrap();
    println!("driver {:?}", d);
    let r = ldap.delete("cn=y").await;
    println!("later {:?}", r.as_ref().err());
    assert!(r.is_err());
    println!("seen {:?}", srv.await.unwrap());
}

// ---- intermediate for single op ----
#[tokio::test]
async fn intermediate_single() {
    let (l, url) = listener().await;
    let srv = tokio::spawn(async move {
        let (mut s, _) = l.accept().await.unwrap();
        while let Some((id, tag, _)) = read_msg(&mut s).await {
            if tag == 0x77 {
                let mut out = msg(id, intermediate(), None);
                out.extend(msg(id, intermediate(), Some(paged_ctrl(b"x"))));
                out.extend(msg(id, result_op(0x78, 0), None));
                s.write_all(&out).await.unwrap();
            }
            if tag == 0x42 { break; }
        }
    });
    let (conn, mut ldap) = LdapConnAsync::new(&url).await.unwrap();
    ldap3::drive!(conn);
    let r = ldap.extended(ldap3::exop::WhoAmI).await.unwrap();
    println!("{:?}", r);
    assert_eq!(r.1.rc, 0);
    let r = ldap.with_timeout(Duration::from_millis(500)).extended(ldap3::exop::WhoAmI).await.unwrap();
    assert_eq!(r.1.rc, 0);
    ldap.unbind().await.unwrap();
    srv.await.unwrap();
}

// ---- paged finish early ----
#[tokio::test]
async fn paged_finish_early() {
    let (l, url) = listener().await;
    let srv = tokio::spawn(paged_server(l, Duration::from_millis(1)));
    let (conn, mut ldap) = LdapConnAsync::new(&url).await.unwrap();
    ldap3::drive!(conn);
    let adapters: Vec<Box<dyn Adapter<_, _>>> = vec![
        Box::new(EntriesOnly::new()),
        Box::new(PagedResults::new(2)),
    ];
    let mut st = ldap
        .streaming_search_with(adapters, "dc=x", Scope::Subtree, "(a=b)", vec!["dn"])
        .await
        .unwrap();
    for _ in 0..3 { st.next().await.unwrap().unwrap(); }
    let res = st.finish().await;
    println!("{:?}", res);
    assert_eq!(res.rc, 88);
    let id = st.ldap_handle().last_id();
    println!("last id {}", id);
    ldap.abandon(id).await.unwrap();
    ldap.unbind().await.unwrap();
    println!("{:?}", srv.await.unwrap().iter().map(|s| (s.0, s.1)).collect::<Vec<_>>());
}

#[test]
fn filters() {
    for f in ["(ou:DN:2.5.13.5:=x)", "(ou:DN:=People)", "(ou:dn:=People)", "(:DN:2.5.13.5:=x)", "(:Dn:=x)", "(:dn:dn:=x)", "(ou:dnMatch:=x)", "(ou:DNMatch:=x)", "(:DNs:=x)", "(ou:dN:caseExactMatch:=x)", "(ou:DN=x)", "(:dn=x)"] {
        let r = ldap3::parse_filter(f);
        match r {
            Ok(t) => {
                use ldap3::asn1::{ASNTag};
                let s = t.into_structure();
                println!("{} => {:?}", f, s);
            }
            Err(e) => println!("{} => ERR {:?}", f, e),
        }
    }
    // dnAttributes ([4] TRUE, a0.. 84 01 ff) present exactly when the flag is there, in any case
    use ldap3::asn1::{ASNTag, TagClass, PL};
    let has_dn = |f: &str| -> bool {
        let s = ldap3::parse_filter(f).unwrap().into_structure();
        match s.payload {
            PL::C(v) => v.iter().any(|t| t.class == TagClass::Context && t.id == 4),
            _ => false,
        }
    };
    assert!(has_dn("(ou:DN:2.5.13.5:=x)") && has_dn("(ou:Dn:=People)") && has_dn("(:dN:2.5.13.5:=x)"));
    assert!(!has_dn("(ou:DNMatch:=x)") && !has_dn("(:DN:=x)") && !has_dn("(ou:dnSubtreeMatch:=x)"));
    assert!(ldap3::parse_filter("(ou:DN=x)").is_err() && ldap3::parse_filter("(:dn=x)").is_err());
}

#[cfg(unix)]
#[tokio::test]
async fn ldapi_nonutf8() {
    use std::os::unix::ffi::OsStrExt;
    let dir = std::env::temp_dir().join(format!("w04-{}", std::process::id()));
    let _ = std::fs::create_dir_all(&dir);
    let mut p = dir.as_os_str().as_bytes().to_vec();
    p.extend(b"/sl\xe9pd A.sock");
    let path = std::ffi::OsStr::from_bytes(&p).to_owned();
    let _ = std::fs::remove_file(&path);
    let l = tokio::net::UnixListener::bind(&path).unwrap();
    let enc: String = p.iter().map(|b| if b.is_ascii_alphanumeric() || *b == b'.' || *b == b'-' { (*b as char).to_string() } else { format!("%{:02x}", b) }).collect();
    let url = format!("ldapi://{}", enc);
    println!("{}", url);
    let acc = tokio::spawn(async move { l.accept().await.map(|_| ()) });
    let r = LdapConnAsync::new(&url).await;
    println!("{:?}", r.as_ref().err());
    assert!(r.is_ok());
    acc.await.unwrap().unwrap();
    // sync too
    let r = std::thread::spawn(move || ldap3::LdapConn::new(&url).map(|_| ())).join().unwrap();
    println!("sync: {:?}", r);
    let r = LdapConnAsync::new("ldapi://%2ftmp%2fno%00such").await;
    println!("{:?}", r.as_ref().err());
    let r = LdapConnAsync::new("ldapi://%00abstract-w04").await;
    println!("{:?}", r.as_ref().err());
}

#[cfg(ldap3_verif)]
mod verif {
    use super::*;

    #[derive(Clone, Debug)]
    struct FailAfter(usize);
    #[async_trait]
    impl<'a, S, A> Adapter<'a, S, A> for FailAfter
    where
        S: AsRef<str> + Send + Sync + 'a,
        A: AsRef<[S]> + Send + Sync + 'a,
    {
        async fn start(&mut self, stream: &mut SearchStream<'a, S, A>, base: &str, scope: Scope, filter: &str, attrs: A) -> Result<()> {
            stream.start(base, scope, filter, attrs).await
        }
        async fn next(&mut self, stream: &mut SearchStream<'a, S, A>) -> Result<Option<ResultEntry>> {
            if self.0 == 0 {
                return Err(ldap3::LdapError::AdapterInit("enough".into()));
            }
            self.0 -= 1;
            stream.next().await
        }
        async fn finish(&mut self, stream: &mut SearchStream<'a, S, A>) -> LdapResult {
            stream.finish().await
        }
    }

    #[tokio::test]
    async fn paged_leftovers() {
        for variant in 0..4 {
            let (l, url) = listener().await;
            let srv = tokio::spawn(paged_server(l, Duration::from_millis(1)));
            let (conn, mut ldap) = LdapConnAsync::new(&url).await.unwrap();
            let gauges = conn.verif_gauges();
            ldap3::drive!(conn);
            let adapters: Vec<Box<dyn Adapter<_, _>>> = match variant {
                0 => vec![Box::new(EntriesOnly::new()), Box::new(PagedResults::new(2))],
                1 => vec![Box::new(PagedResults::new(2)), Box::new(EntriesOnly::new())],
                2 => vec![Box::new(FailAfter(3)), Box::new(PagedResults::new(2))],
                _ => vec![Box::new(PagedResults::new(2)), Box::new(FailAfter(3))],
            };
            let mut st = ldap
                .streaming_search_with(adapters, "dc=x", Scope::Subtree, "(a=b)", vec!["dn"])
                .await
                .unwrap();
            let mut n = 0;
            for _ in 0..3 {
                match st.next().await { Ok(Some(_)) => n += 1, other => { println!("v{} stop: {:?}", variant, other.map(|o| o.is_some())); break; } }
            }
            if variant >= 2 { let r = st.next().await; println!("v{} 4th: {:?}", variant, r.map(|o| o.is_some())); }
            let res = st.finish().await;
            println!("v{} n={} finish rc={} state={:?}", variant, n, res.rc, st.state());
            // a round trip to let the driver handle the scrub
            let _ = ldap.with_timeout(Duration::from_millis(100)).extended(ldap3::exop::WhoAmI).await;
            let _ = ldap.with_timeout(Duration::from_millis(100)).extended(ldap3::exop::WhoAmI).await;
            println!("v{} table={:?} gauges={:?}", variant, ldap.verif_id_table(), gauges.lock().unwrap().clone());
            drop(st);
            ldap.unbind().await.unwrap();
            tokio::time::sleep(Duration::from_millis(20)).await;
            println!("v{} after unbind table={:?}", variant, ldap.verif_id_table());
            let _ = srv.await;
        }
    }
}

#[tokio::test]
async fn starttls_intermediate() {
    for rc in [2u8, 0u8] {
        let (l, url) = listener().await;
        let srv = tokio::spawn(async move {
            let (mut s, _) = l.accept().await.unwrap();
            if let Some((id, tag, _)) = read_msg(&mut s).await {
                assert_eq!(tag, 0x77);
                let mut out = msg(id, intermediate(), None);
                out.extend(msg(0, result_op(0x78, 0), None)); // unsolicited
                out.extend(msg(id, result_op(0x78, rc), None));
                s.write_all(&out).await.unwrap();
            }
            tokio::time::sleep(Duration::from_millis(100)).await;
        });
        let settings = ldap3::LdapConnSettings::new().set_starttls(true).set_conn_timeout(Duration::from_secs(3));
        let r = LdapConnAsync::with_settings(settings, &url).await;
        println!("rc {} => {:?}", rc, r.as_ref().err());
        assert!(r.is_err());
        srv.await.unwrap();
    }
}

#[tokio::test]
async fn malformed_frames() {
    let frames: Vec<(&str, Vec<u8>)> = vec![
        ("empty seq", vec![0x30, 0x00]),
        ("only id", tlv(0x30, &int(1))),
        ("ctrl no op", tlv(0x30, &cat(&[int(1), tlv(0xA0, &[])]))),
        ("ctrl prim", tlv(0x30, &cat(&[int(1), result_op(0x6b, 0), tlv(0x80, &[1])]))),
        ("ctrl empty ctl", msg(1, result_op(0x6b, 0), Some(tlv(0x30, &[])))),
        ("ctrl bool empty", msg(1, result_op(0x6b, 0), Some(tlv(0x30, &cat(&[octs(b"1.2"), tlv(0x01, &[])]))))),
        ("ctrl oid nonutf8", msg(1, result_op(0x6b, 0), Some(tlv(0x30, &octs(b"\xff"))))),
        ("ctrl val constructed", msg(1, result_op(0x6b, 0), Some(tlv(0x30, &cat(&[octs(b"1.2"), tlv(0x24, &octs(b"x"))]))))),
        ("id neg", tlv(0x30, &cat(&[tlv(0x02, &[0xff]), result_op(0x6b, 0)]))),
        ("AD quirk only", tlv(0x30, &cat(&[tlv(0x8a, b"1.2")]))),
        ("not seq", tlv(0x31, &cat(&[int(1), result_op(0x6b, 0)]))),
    ];
    for (name, f) in frames {
        let (l, url) = listener().await;
        let f2 = f.clone();
        let srv = tokio::spawn(async move {
            let (mut s, _) = l.accept().await.unwrap();
            let _ = read_msg(&mut s).await;
            s.write_all(&f2).await.unwrap();
            let _ = read_msg(&mut s).await;
            tokio::time::sleep(Duration::from_millis(50)).await;
        });
        let (conn, mut ldap) = LdapConnAsync::new(&url).await.unwrap();
        let drv = tokio::spawn(async move { conn.drive().await });
        let r = tokio::time::timeout(Duration::from_secs(2), ldap.delete("cn=x")).await.expect("hang");
        let d = tokio::time::timeout(Duration::from_secs(2), drv).await.expect("driver hang");
        println!("{:20} op={:?} drv={:?}", name, r.as_ref().map(|r| r.rc).map_err(|e| e.to_string()), d.map(|r| r.map_err(|e| e.to_string())).map_err(|e| e.is_panic()));
        srv.abort();
    }
    // well-formed variants that must be accepted
    let good: Vec<(&str, Vec<u8>)> = vec![
        ("empty ctrls", msg(1, result_op(0x6b, 0), Some(vec![]))),
        ("ctl crit false + val", msg(1, result_op(0x6b, 0), Some(tlv(0x30, &cat(&[octs(b"1.2"), tlv(0x01, &[0]), octs(b"v")]))))),
        ("ctl only oid", msg(1, result_op(0x6b, 0), Some(tlv(0x30, &octs(b"1.2"))))),
        ("long-form lens", { let mut m = vec![0x30, 0x82, 0x00, 0x0f, 0x02, 0x81, 0x01, 0x01, 0x6b, 0x81, 0x08, 0x0a, 0x01, 0x00, 0x04, 0x00, 0x04, 0x81, 0x00]; m.truncate(19); m }),
        ("AD quirk", tlv(0x30, &cat(&[int(1), result_op(0x78, 0), tlv(0x8a, b"1.3.6.1.4.1.1466.20036")]))),
    ];
    for (name, f) in good {
        let (l, url) = listener().await;
        let f2 = f.clone();
        let srv = tokio::spawn(async move {
            let (mut s, _) = l.accept().await.unwrap();
            let _ = read_msg(&mut s).await;
            s.write_all(&f2).await.unwrap();
            let _ = read_msg(&mut s).await;
        });
        let (conn, mut ldap) = LdapConnAsync::new(&url).await.unwrap();
        ldap3::drive!(conn);
        let r = tokio::time::timeout(Duration::from_secs(2), ldap.delete("cn=x")).await.expect("hang");
        println!("{:20} op={:?}", name, r.as_ref().map(|r| (r.rc, r.ctrls.clone())).map_err(|e| e.to_string()));
        assert!(r.is_ok(), "{}", name);
        srv.abort();
    }
}

#[test]
fn sync_paged_example_flow() {
    let rt = tokio::runtime::Builder::new_multi_thread().enable_all().build().unwrap();
    for early in [false, true] {
        let (l, url) = rt.block_on(listener());
        let srv = rt.spawn(paged_server(l, Duration::from_millis(1)));
        let mut ldap = ldap3::LdapConn::new(&url).unwrap();
        let adapters: Vec<Box<dyn Adapter<_, _>>> = vec![
            Box::new(EntriesOnly::new()),
            Box::new(PagedResults::new(2)),
        ];
        let mut search = ldap
            .streaming_search_with(adapters, "dc=example,dc=org", Scope::Subtree, "(objectClass=*)", vec!["dn"])
            .unwrap();
        let mut n = 0;
        while let Some(_e) = search.next().unwrap() {
            n += 1;
            if early && n == 3 { break; }
        }
        let id = search.last_id();
        let res = search.result();
        println!("early={} n={} id={} res={:?}", early, n, id, res);
        if early { assert_eq!(res.rc, 88); ldap.abandon(id).unwrap(); } else { assert_eq!(res.rc, 0); assert_eq!(n, 6); }
        ldap.unbind().unwrap();
        assert!(ldap.is_closed());
        assert!(ldap.delete("cn=x").is_err());
        let seen = rt.block_on(srv).unwrap();
        println!("{:?}", seen.iter().map(|s| (s.0, s.1)).collect::<Vec<_>>());
    }
}

// TLS: unbind with pending ops while the peer stays silent
#[tokio::test]
async fn tls_unbind_pending() {
    use tokio_native_tls::native_tls;
    let ident = match tls_identity() {
        Some(i) => i,
        None => {
            println!("skipped: no openssl");
            return;
        }
    };
    let acc = tokio_native_tls::TlsAcceptor::from(native_tls::TlsAcceptor::new(ident).unwrap());
    let l = TcpListener::bind("127.0.0.1:0").await.unwrap();
    let url = format!("ldaps://localhost:{}", l.local_addr().unwrap().port());
    let srv = tokio::spawn(async move {
        let (s, _) = l.accept().await.unwrap();
        let mut s = acc.accept(s).await.unwrap();
        let mut buf = vec![0u8; 4096];
        let mut total = 0;
        // read but never answer, never close
        loop {
            match tokio::time::timeout(Duration::from_secs(3), s.read(&mut buf)).await {
                Ok(Ok(0)) => { println!("server: eof after {}", total); break; }
                Ok(Ok(n)) => total += n,
                Ok(Err(e)) => { println!("server: err {:?}", e); break; }
                Err(_) => { println!("server: still open after 3s"); break; }
            }
        }
    });
    let settings = ldap3::LdapConnSettings::new().set_no_tls_verify(true);
    let (conn, mut ldap) = LdapConnAsync::with_settings(settings, &url).await.unwrap();
    let drv = tokio::spawn(async move { conn.drive().await });
    let mut l2 = ldap.clone();
    let pending = tokio::spawn(async move { l2.delete("cn=x").await });
    tokio::time::sleep(Duration::from_millis(50)).await;
    tokio::time::timeout(Duration::from_secs(2), ldap.unbind()).await.expect("unbind hangs").unwrap();
    let r = tokio::time::timeout(Duration::from_secs(2), pending).await.expect("pending hangs").unwrap();
    assert!(r.is_err());
    tokio::time::timeout(Duration::from_secs(2), drv).await.expect("driver hangs").unwrap().unwrap();
    srv.await.unwrap();
}

#[tokio::test]
async fn starttls_real_with_intermediate() {
    use tokio_native_tls::native_tls;
    let ident = match tls_identity() {
        Some(i) => i,
        None => {
            println!("skipped: no openssl");
            return;
        }
    };
    let acc = tokio_native_tls::TlsAcceptor::from(native_tls::TlsAcceptor::new(ident).unwrap());
    let l = TcpListener::bind("127.0.0.1:0").await.unwrap();
    let url = format!("ldap://localhost:{}", l.local_addr().unwrap().port());
    let srv = tokio::spawn(async move {
        let (mut s, _) = l.accept().await.unwrap();
        let (id, tag, _) = read_msg(&mut s).await.unwrap();
        assert_eq!(tag, 0x77);
        s.write_all(&msg(id, intermediate(), None)).await.unwrap();
        tokio::time::sleep(Duration::from_millis(30)).await;
        s.write_all(&msg(id, result_op(0x78, 0), None)).await.unwrap();
        let mut s = acc.accept(s).await.unwrap();
        // one whoami inside TLS
        let mut buf = vec![0u8; 4096];
        let n = s.read(&mut buf).await.unwrap();
        assert!(n > 0);
        let id2 = buf[4] as i64;
        let mut out = msg(id2, intermediate(), None);
        out.extend(msg(id2, result_op(0x78, 0), None));
        s.write_all(&out).await.unwrap();
        let _ = s.read(&mut buf).await;
    });
    let settings = ldap3::LdapConnSettings::new().set_no_tls_verify(true).set_starttls(true);
    let (conn, mut ldap) = LdapConnAsync::with_settings(settings, &url).await.unwrap();
    ldap3::drive!(conn);
    let r = tokio::time::timeout(Duration::from_secs(2), ldap.extended(ldap3::exop::WhoAmI)).await.expect("hang").unwrap();
    assert_eq!(r.1.rc, 0);
    ldap.unbind().await.unwrap();
    srv.await.unwrap();
}
