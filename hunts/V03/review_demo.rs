// Review V03: the checks run against the six repairs (74a1ddb 76938fd 1a2b489 b6b9000 2a49320 ef24d4d).
// All of them PASS on the source as it is: no defect was found in the repairs. Scripted in-process
// servers, raw LDAP bytes. b2_ldap_no_host needs to bind port 389 (root).
use std::time::Duration;

use ldap3::adapters::{Adapter, EntriesOnly, PagedResults};
use ldap3::{LdapConnAsync, LdapConnSettings, Scope, SearchEntry};
use tokio::io::{AsyncReadExt, AsyncWriteExt};
use tokio::net::{TcpListener, TcpStream};

fn len_bytes(n: usize) -> Vec<u8> {
    if n < 128 {
        vec![n as u8]
    } else if n < 256 {
        vec![0x81, n as u8]
    } else {
        vec![0x82, (n >> 8) as u8, n as u8]
    }
}

fn tlv(tag: u8, content: &[u8]) -> Vec<u8> {
    let mut v = vec![tag];
    v.extend(len_bytes(content.len()));
    v.extend_from_slice(content);
    v
}

fn msg(id: i32, op: Vec<u8>, controls: Option<Vec<u8>>) -> Vec<u8> {
    let mut c = tlv(0x02, &[(id & 0x7f) as u8]);
    c.extend(op);
    if let Some(ctrls) = controls {
        c.extend(ctrls);
    }
    tlv(0x30, &c)
}

fn result_op(tag: u8, rc: u8) -> Vec<u8> {
    let mut c = tlv(0x0a, &[rc]);
    c.extend(tlv(0x04, b""));
    c.extend(tlv(0x04, b""));
    tlv(tag, &c)
}

fn entry_op(dn: &str) -> Vec<u8> {
    let mut c = tlv(0x04, dn.as_bytes());
    c.extend(tlv(0x30, b""));
    tlv(0x64, &c)
}

fn paged_ctrl(cookie: &[u8]) -> Vec<u8> {
    let mut val = tlv(0x02, &[0]);
    val.extend(tlv(0x04, cookie));
    let val = tlv(0x30, &val);
    let mut c = tlv(0x04, b"1.2.840.113556.1.4.319");
    c.extend(tlv(0x04, &val));
    let c = tlv(0x30, &c);
    tlv(0xa0, &c)
}

// read one whole BER element; return (msgid, op tag, raw)
async fn read_msg(s: &mut TcpStream) -> Option<(i32, u8, Vec<u8>)> {
    let mut hdr = [0u8; 2];
    s.read_exact(&mut hdr).await.ok()?;
    let mut raw = hdr.to_vec();
    let len = if hdr[1] < 128 {
        hdr[1] as usize
    } else {
        let n = (hdr[1] & 0x7f) as usize;
        let mut lb = vec![0u8; n];
        s.read_exact(&mut lb).await.ok()?;
        raw.extend(&lb);
        lb.iter().fold(0usize, |a, b| (a << 8) | *b as usize)
    };
    let mut body = vec![0u8; len];
    s.read_exact(&mut body).await.ok()?;
    raw.extend(&body);
    // body: 02 len id.. op
    let idlen = body[1] as usize;
    let id = body[2..2 + idlen].iter().fold(0i32, |a, b| (a << 8) | *b as i32);
    let optag = body[2 + idlen];
    Some((id, optag, raw))
}

async fn listener() -> (TcpListener, String) {
    let l = TcpListener::bind("127.0.0.1:0").await.unwrap();
    let url = format!("ldap://127.0.0.1:{}", l.local_addr().unwrap().port());
    (l, url)
}

fn unsolicited() -> Vec<u8> {
    let mut c = tlv(0x0a, &[52]);
    c.extend(tlv(0x04, b""));
    c.extend(tlv(0x04, b"bye"));
    c.extend(tlv(0x8a, b"1.3.6.1.4.1.1466.20036"));
    msg(0, tlv(0x78, &c), None)
}

#[tokio::test]
async fn a1_starttls_unsolicited_then_refusal() {
    let (l, url) = listener().await;
    tokio::spawn(async move {
        let (mut s, _) = l.accept().await.unwrap();
        let (id, _t, _) = read_msg(&mut s).await.unwrap();
        s.write_all(&unsolicited()).await.unwrap();
        tokio::time::sleep(Duration::from_millis(100)).await;
        s.write_all(&msg(id, result_op(0x78, 2), None)).await.unwrap();
        tokio::time::sleep(Duration::from_secs(5)).await;
    });
    let settings = LdapConnSettings::new().set_starttls(true);
    let r = tokio::time::timeout(Duration::from_secs(3), LdapConnAsync::with_settings(settings, &url)).await;
    match r {
        Err(_) => panic!("hang"),
        Ok(Ok(_)) => panic!("connected?"),
        Ok(Err(e)) => println!("a1 err: {:?}", e),
    }
}

#[tokio::test]
async fn a2_starttls_close_after_request() {
    let (l, url) = listener().await;
    tokio::spawn(async move {
        let (mut s, _) = l.accept().await.unwrap();
        let _ = read_msg(&mut s).await.unwrap();
        drop(s);
    });
    let settings = LdapConnSettings::new().set_starttls(true);
    let r = tokio::time::timeout(Duration::from_secs(3), LdapConnAsync::with_settings(settings, &url)).await;
    match r {
        Err(_) => panic!("hang"),
        Ok(Ok(_)) => panic!("connected?"),
        Ok(Err(e)) => println!("a2 err: {:?}", e),
    }
}

#[tokio::test]
async fn a3_starttls_close_immediately() {
    let (l, url) = listener().await;
    tokio::spawn(async move {
        let (s, _) = l.accept().await.unwrap();
        drop(s);
    });
    let settings = LdapConnSettings::new().set_starttls(true);
    let r = tokio::time::timeout(Duration::from_secs(3), LdapConnAsync::with_settings(settings, &url)).await;
    match r {
        Err(_) => panic!("hang"),
        Ok(Ok(_)) => panic!("connected?"),
        Ok(Err(e)) => println!("a3 err: {:?}", e),
    }
}

#[tokio::test]
async fn a4_starttls_unsolicited_first() {
    let (l, url) = listener().await;
    tokio::spawn(async move {
        let (mut s, _) = l.accept().await.unwrap();
        s.write_all(&unsolicited()).await.unwrap();
        let (id, _t, _) = read_msg(&mut s).await.unwrap();
        s.write_all(&msg(id, result_op(0x78, 2), None)).await.unwrap();
        tokio::time::sleep(Duration::from_secs(5)).await;
    });
    let settings = LdapConnSettings::new().set_starttls(true);
    let r = tokio::time::timeout(Duration::from_secs(3), LdapConnAsync::with_settings(settings, &url)).await;
    match r {
        Err(_) => panic!("hang"),
        Ok(Ok(_)) => panic!("connected?"),
        Ok(Err(e)) => println!("a4 err: {:?}", e),
    }
}

#[tokio::test]
async fn a5_starttls_timeout() {
    let (l, url) = listener().await;
    tokio::spawn(async move {
        let (mut s, _) = l.accept().await.unwrap();
        let _ = read_msg(&mut s).await.unwrap();
        tokio::time::sleep(Duration::from_secs(5)).await;
    });
    let settings = LdapConnSettings::new()
        .set_starttls(true)
        .set_conn_timeout(Duration::from_millis(300));
    let r = tokio::time::timeout(Duration::from_secs(3), LdapConnAsync::with_settings(settings, &url)).await;
    match r {
        Err(_) => panic!("hang"),
        Ok(Ok(_)) => panic!("connected?"),
        Ok(Err(e)) => println!("a5 err: {:?}", e),
    }
}

#[tokio::test]
async fn a6_starttls_success_then_garbage() {
    let (l, url) = listener().await;
    tokio::spawn(async move {
        let (mut s, _) = l.accept().await.unwrap();
        let (id, _t, _) = read_msg(&mut s).await.unwrap();
        let mut out = msg(id, result_op(0x78, 0), None);
        out.extend(msg(2, result_op(0x61, 0), None));
        s.write_all(&out).await.unwrap();
        tokio::time::sleep(Duration::from_millis(200)).await;
        drop(s);
    });
    let settings = LdapConnSettings::new().set_starttls(true);
    let r = tokio::time::timeout(Duration::from_secs(3), LdapConnAsync::with_settings(settings, &url)).await;
    match r {
        Err(_) => panic!("hang"),
        Ok(Ok(_)) => panic!("connected?"),
        Ok(Err(e)) => println!("a6 err: {:?}", e),
    }
}

#[tokio::test]
async fn b_urls() {
    for u in [
        "ldap:///",
        "ldap://",
        "ldap:",
        "ldaps:///",
        "ldap://:389/",
        "ldap://localhost:/",
        "ldapi://%2Ftmp%2Fx.sock:389/",
        "ldapi://%2Ftmp%2Fx.sock:/",
        "ldapi://%2Ftmp%2Fx.sock",
        "ldapi://%2Ftmp%2Fx.sock:0",
        "ldapi:///",
        "ldapi://:389/",
        "LDAP://localhost/",
        "ldap://[::1]/",
    ] {
        match url::Url::parse(u) {
            Ok(p) => println!("{} -> scheme={} host={:?} port={:?} path={:?}", u, p.scheme(), p.host_str(), p.port(), p.path()),
            Err(e) => println!("{} -> parse error {:?}", u, e),
        }
    }
}

#[tokio::test]
async fn b2_ldap_no_host() {
    let l4 = TcpListener::bind("127.0.0.1:389").await.unwrap();
    let l6 = TcpListener::bind("[::1]:389").await.ok();
    let serve = |mut s: TcpStream| async move {
        while let Some((id, t, _)) = read_msg(&mut s).await {
            if t == 0x60 {
                s.write_all(&msg(id, result_op(0x61, 0), None)).await.unwrap();
            }
        }
    };
    tokio::spawn(async move {
        loop {
            let (s, _) = l4.accept().await.unwrap();
            tokio::spawn(serve(s));
        }
    });
    if let Some(l6) = l6 {
        tokio::spawn(async move {
            loop {
                let (s, _) = l6.accept().await.unwrap();
                tokio::spawn(serve(s));
            }
        });
    }
    for u in ["ldap:///", "ldap://", "ldap:", "ldap:///dc=example"] {
        let r = LdapConnAsync::new(u).await;
        match r {
            Ok((conn, mut ldap)) => {
                ldap3::drive!(conn);
                let res = ldap.simple_bind("", "").await;
                println!("{} -> bind {:?}", u, res.map(|r| r.rc));
            }
            Err(e) => println!("{} -> err {:?}", u, e),
        }
    }
    let u = "ldap:///";
    let r = tokio::task::spawn_blocking(move || {
        let mut c = ldap3::LdapConn::new(u)?;
        c.simple_bind("", "")
    })
    .await
    .unwrap();
    println!("sync {} -> {:?}", u, r.map(|r| r.rc));
}

#[tokio::test]
async fn c_ldapi() {
    let path = "/tmp/probe-v03.sock";
    let _ = std::fs::remove_file(path);
    let l = tokio::net::UnixListener::bind(path).unwrap();
    tokio::spawn(async move {
        loop {
            let (s, _) = l.accept().await.unwrap();
            tokio::spawn(async move {
                let _s = s;
                tokio::time::sleep(Duration::from_secs(2)).await;
            });
        }
    });
    for u in [
        "ldapi://%2Ftmp%2Fprobe-v03.sock",
        "ldapi://%2Ftmp%2Fprobe-v03.sock/",
        "ldapi://%2Ftmp%2Fprobe-v03.sock:/",
        "ldapi://%2Ftmp%2Fprobe-v03.sock:389/",
        "ldapi://%2Ftmp%2Fprobe-v03.sock:0/",
        "ldapi://%2ftmp%2fprobe-v03.sock",
        "ldapi:///",
        "ldapi://",
    ] {
        let r = LdapConnAsync::new(u).await;
        println!("{} -> {:?}", u, r.map(|_| "ok"));
    }
}

#[tokio::test]
async fn d_malformed_results() {
    let (l, url) = listener().await;
    tokio::spawn(async move {
        let (mut s, _) = l.accept().await.unwrap();
        // op 1: bind -> malformed result (rc is octet string)
        let (id, _, _) = read_msg(&mut s).await.unwrap();
        let mut c = tlv(0x04, &[0]);
        c.extend(tlv(0x04, b""));
        c.extend(tlv(0x04, b""));
        s.write_all(&msg(id, tlv(0x61, &c), None)).await.unwrap();
        // op 2: bind -> ok
        let (id, _, _) = read_msg(&mut s).await.unwrap();
        s.write_all(&msg(id, result_op(0x61, 0), None)).await.unwrap();
        // op 3: bind -> primitive protoop
        let (id, _, _) = read_msg(&mut s).await.unwrap();
        s.write_all(&msg(id, tlv(0x41, b"xx"), None)).await.unwrap();
        // op 4: search -> entry + malformed done
        let (id, _, _) = read_msg(&mut s).await.unwrap();
        let mut out = msg(id, entry_op("cn=a"), None);
        out.extend(msg(id, tlv(0x65, &tlv(0x0a, &[0])), None));
        s.write_all(&out).await.unwrap();
        tokio::time::sleep(Duration::from_secs(2)).await;
    });
    let (conn, mut ldap) = LdapConnAsync::new(&url).await.unwrap();
    let h = tokio::spawn(async move { conn.drive().await });
    println!("d1 {:?}", ldap.simple_bind("", "").await.map(|r| r.rc));
    println!("d2 {:?}", ldap.simple_bind("", "").await.map(|r| r.rc));
    println!("d3 {:?}", ldap.simple_bind("", "").await.map(|r| r.rc));
    let mut st = ldap.streaming_search("", Scope::Base, "(a=b)", vec!["a"]).await.unwrap();
    loop {
        let n = tokio::time::timeout(Duration::from_secs(1), st.next()).await;
        match n {
            Err(_) => panic!("hang"),
            Ok(Ok(Some(e))) => println!("d4 entry {:?}", SearchEntry::construct(e).dn),
            Ok(Ok(None)) => {
                println!("d4 end");
                break;
            }
            Ok(Err(e)) => {
                println!("d4 err {:?}", e);
                break;
            }
        }
    }
    println!("d4 finish {:?} state {:?}", st.finish().await.rc, st.state());
    println!("drive: {:?}", tokio::time::timeout(Duration::from_secs(1), h).await);
}

#[tokio::test]
async fn e_unexpected_kind_for_search() {
    let (l, url) = listener().await;
    tokio::spawn(async move {
        let (mut s, _) = l.accept().await.unwrap();
        let (id, _, _) = read_msg(&mut s).await.unwrap();
        let mut out = msg(id, result_op(0x61, 0), None);
        out.extend(msg(id, entry_op("cn=a"), None));
        out.extend(msg(id, tlv(0x41, b"xx"), None));
        out.extend(msg(id, tlv(0x04, b"xx"), None)); // universal octet string, id 4
        out.extend(msg(id, result_op(0x65, 0), None));
        s.write_all(&out).await.unwrap();
        tokio::time::sleep(Duration::from_secs(2)).await;
    });
    let (conn, mut ldap) = LdapConnAsync::new(&url).await.unwrap();
    ldap3::drive!(conn);
    let mut st = ldap.streaming_search("", Scope::Base, "(a=b)", vec!["a"]).await.unwrap();
    loop {
        let n = tokio::time::timeout(Duration::from_secs(1), st.next()).await;
        match n {
            Err(_) => panic!("hang"),
            Ok(Ok(Some(e))) => println!("e entry {:?}", e.0),
            Ok(Ok(None)) => {
                println!("e end");
                break;
            }
            Ok(Err(e)) => {
                println!("e err {:?}", e);
                break;
            }
        }
    }
    println!("e finish {:?} state {:?}", st.finish().await.rc, st.state());
}

async fn paged_server(l: TcpListener) {
    let (mut s, _) = l.accept().await.unwrap();
    let mut page = 0;
    while let Some((id, t, raw)) = read_msg(&mut s).await {
        if t != 0x63 {
            println!("server: got op {:x}", t);
            continue;
        }
        page += 1;
        println!("server: search page {} id {} len {}", page, id, raw.len());
        let mut out = vec![];
        for i in 0..2 {
            out.extend(msg(id, entry_op(&format!("cn=p{}e{}", page, i)), None));
        }
        if page < 3 {
            let mut done = tlv(0x0a, &[0]);
            done.extend(tlv(0x04, b""));
            done.extend(tlv(0x04, format!("page{}", page).as_bytes()));
            out.extend(msg(id, tlv(0x65, &done), Some(paged_ctrl(format!("ck{}", page).as_bytes()))));
        } else {
            let mut done = tlv(0x0a, &[0]);
            done.extend(tlv(0x04, b""));
            done.extend(tlv(0x04, b"final"));
            out.extend(msg(id, tlv(0x65, &done), Some(paged_ctrl(b""))));
        }
        s.write_all(&out).await.unwrap();
    }
}

#[tokio::test]
async fn f_paged() {
    for order in 0..3 {
        for stop_after in [3usize, 100] {
            let (l, url) = listener().await;
            tokio::spawn(paged_server(l));
            let (conn, mut ldap) = LdapConnAsync::new(&url).await.unwrap();
            ldap3::drive!(conn);
            let adapters: Vec<Box<dyn Adapter<_, _>>> = match order {
                0 => vec![Box::new(EntriesOnly::new()), Box::new(PagedResults::new(2))],
                1 => vec![Box::new(PagedResults::new(2)), Box::new(EntriesOnly::new())],
                _ => vec![Box::new(PagedResults::new(2))],
            };
            let mut st = ldap
                .streaming_search_with(adapters, "dc=x", Scope::Subtree, "(a=b)", vec!["a"])
                .await
                .unwrap();
            let mut n = 0;
            let mut dns = vec![];
            while n < stop_after {
                match st.next().await {
                    Ok(Some(e)) => {
                        dns.push(SearchEntry::construct(e).dn);
                        n += 1;
                    }
                    Ok(None) => break,
                    Err(e) => {
                        println!("err {:?}", e);
                        break;
                    }
                }
            }
            let res = st.finish().await;
            println!(
                "order {} stop {} -> dns {:?} rc {} text {:?} ctrls {} state {:?}",
                order,
                stop_after,
                dns,
                res.rc,
                res.text,
                res.ctrls.len(),
                st.state()
            );
            let res2 = st.finish().await;
            println!("   second finish rc {}", res2.rc);
        }
    }
}

#[tokio::test]
async fn g_starttls_success_paths() {
    for variant in 0..3 {
        let (l, url) = listener().await;
        tokio::spawn(async move {
            let (mut s, _) = l.accept().await.unwrap();
            if variant == 1 {
                s.write_all(&unsolicited()).await.unwrap();
                tokio::time::sleep(Duration::from_millis(50)).await;
            }
            let (id, _t, _) = read_msg(&mut s).await.unwrap();
            let mut out = vec![];
            if variant == 2 {
                out.extend(unsolicited());
            }
            out.extend(msg(id, result_op(0x78, 0), None));
            // one byte at a time
            for b in out {
                s.write_all(&[b]).await.unwrap();
                s.flush().await.unwrap();
                tokio::time::sleep(Duration::from_millis(1)).await;
            }
            let cert = std::fs::read("data/tls/cert.pem").unwrap();
            let key = std::fs::read("data/tls/key.pem").unwrap();
            let ident = native_tls::Identity::from_pkcs8(&cert, &key).unwrap();
            let acc = tokio_native_tls::TlsAcceptor::from(native_tls::TlsAcceptor::new(ident).unwrap());
            let mut tls = acc.accept(s).await.unwrap();
            // read a bind
            let mut buf = vec![0u8; 256];
            let n = tls.read(&mut buf).await.unwrap();
            println!("server: got {} bytes over TLS, first={:x}", n, buf[0]);
            // msgid at buf[4]
            let id = buf[4] as i32;
            tls.write_all(&msg(id, result_op(0x61, 0), None)).await.unwrap();
            tokio::time::sleep(Duration::from_secs(1)).await;
        });
        let settings = LdapConnSettings::new().set_starttls(true).set_no_tls_verify(true);
        let url = url.replace("127.0.0.1", "localhost");
        let r = tokio::time::timeout(Duration::from_secs(5), LdapConnAsync::with_settings(settings, &url)).await;
        match r {
            Err(_) => panic!("hang"),
            Ok(Err(e)) => panic!("variant {} err {:?}", variant, e),
            Ok(Ok((conn, mut ldap))) => {
                ldap3::drive!(conn);
                let res = tokio::time::timeout(Duration::from_secs(3), ldap.simple_bind("", "")).await;
                println!("variant {} bind {:?}", variant, res.map(|r| r.map(|r| r.rc)));
            }
        }
    }
}

#[tokio::test(flavor = "multi_thread", worker_threads = 2)]
async fn h_sync_starttls_failures() {
    for variant in 0..3 {
        let (l, url) = listener().await;
        tokio::spawn(async move {
            let (mut s, _) = l.accept().await.unwrap();
            match variant {
                0 => drop(s),
                1 => {
                    let _ = read_msg(&mut s).await;
                    drop(s)
                }
                _ => {
                    s.write_all(&unsolicited()).await.unwrap();
                    let (id, _, _) = read_msg(&mut s).await.unwrap();
                    s.write_all(&unsolicited()).await.unwrap();
                    s.write_all(&msg(id, result_op(0x78, 53), None)).await.unwrap();
                    tokio::time::sleep(Duration::from_secs(1)).await;
                }
            }
        });
        let t = std::time::Instant::now();
        let r = tokio::time::timeout(
            Duration::from_secs(4),
            tokio::task::spawn_blocking(move || {
                let settings = LdapConnSettings::new().set_starttls(true);
                ldap3::LdapConn::with_settings(settings, &url).map(|_| ())
            }),
        )
        .await;
        println!("h{} {:?} in {:?}", variant, r, t.elapsed());
    }
}

struct Rng(u64);
impl Rng {
    fn next(&mut self) -> u64 {
        self.0 ^= self.0 << 13;
        self.0 ^= self.0 >> 7;
        self.0 ^= self.0 << 17;
        self.0
    }
    fn below(&mut self, n: u64) -> u64 {
        self.next() % n
    }
}

fn rand_elem(r: &mut Rng, depth: u32) -> Vec<u8> {
    let tags = [0x04u8, 0x0a, 0x02, 0x30, 0x31, 0xa3, 0x87, 0x8a, 0x8b, 0xa7, 0xaa, 0x80, 0xa0, 0x01, 0x05];
    let tag = tags[r.below(tags.len() as u64) as usize];
    if tag & 0x20 != 0 && depth < 3 {
        let n = r.below(4);
        let mut c = vec![];
        for _ in 0..n {
            c.extend(rand_elem(r, depth + 1));
        }
        tlv(tag, &c)
    } else {
        let n = r.below(10) as usize;
        let c: Vec<u8> = (0..n).map(|_| match r.below(4) { 0 => 0, 1 => 0xff, 2 => b'a', _ => r.next() as u8 }).collect();
        tlv(tag, &c)
    }
}

fn rand_op(r: &mut Rng) -> Vec<u8> {
    let optags = [0x64u8, 0x65, 0x73, 0x79, 0x61, 0x78, 0x67, 0x69, 0x6b, 0x6d, 0x6f, 0x44, 0x45, 0x53, 0x59, 0x04, 0x05, 0x30, 0x24, 0x25, 0x39, 0xa5, 0xa4, 0x85, 0xe5, 0x0a];
    let tag = optags[r.below(optags.len() as u64) as usize];
    let n = r.below(6);
    let mut c = vec![];
    if r.below(2) == 0 {
        // start like a result
        c.extend(tlv(0x0a, &[(r.below(3)) as u8]));
        c.extend(tlv(0x04, b""));
        c.extend(tlv(0x04, b""));
    }
    for _ in 0..n {
        c.extend(rand_elem(r, 0));
    }
    if tag & 0x20 == 0 {
        tlv(tag, &c[..c.len().min(20)])
    } else {
        tlv(tag, &c)
    }
}

#[tokio::test(flavor = "multi_thread", worker_threads = 4)]
async fn i_fuzz_driver() {
    let mut r = Rng(0x9e3779b97f4a7c15);
    for iter in 0..1500 {
        let (l, url) = listener().await;
        let nmsgs = 1 + r.below(4);
        let mut out = vec![];
        for _ in 0..nmsgs {
            let id = 1 + r.below(3) as i32; // 1 = search, 2 = bind, 3 = nobody
            out.extend(msg(id, rand_op(&mut r), None));
        }
        let out2 = out.clone();
        tokio::spawn(async move {
            let (mut s, _) = l.accept().await.unwrap();
            let _ = read_msg(&mut s).await; // search
            let _ = read_msg(&mut s).await; // bind
            s.write_all(&out2).await.unwrap();
            tokio::time::sleep(Duration::from_millis(20)).await;
        });
        let (conn, mut ldap) = LdapConnAsync::new(&url).await.unwrap();
        let h = tokio::spawn(async move { conn.drive().await });
        let mut st = ldap.streaming_search("", Scope::Base, "(a=b)", vec!["a"]).await.unwrap();
        let mut l2 = ldap.clone();
        let b = tokio::spawn(async move { l2.simple_bind("", "").await });
        let s = tokio::spawn(async move {
            loop {
                match st.next().await {
                    Ok(Some(_)) => (),
                    _ => break,
                }
            }
            st.finish().await
        });
        let rb = tokio::time::timeout(Duration::from_secs(2), b).await;
        let rs = tokio::time::timeout(Duration::from_secs(2), s).await;
        drop(ldap);
        let rh = tokio::time::timeout(Duration::from_secs(2), h).await;
        let bad = |what: &str| panic!("iter {} {}: bytes {:02x?}", iter, what, out);
        match rb { Err(_) => bad("bind hang"), Ok(Err(_)) => bad("bind panic"), _ => () }
        match rs { Err(_) => bad("search hang"), Ok(Err(_)) => bad("search panic"), _ => () }
        match rh { Err(_) => bad("drive hang"), Ok(Err(_)) => bad("drive panic"), _ => () }
    }
}

#[tokio::test]
async fn j_starttls_timeout_closes_socket() {
    let (l, url) = listener().await;
    let srv = tokio::spawn(async move {
        let (mut s, _) = l.accept().await.unwrap();
        let _ = read_msg(&mut s).await.unwrap();
        let mut b = [0u8; 16];
        let r = tokio::time::timeout(Duration::from_secs(2), s.read(&mut b)).await;
        println!("server read after timeout: {:?}", r);
        matches!(r, Ok(Ok(0)) | Ok(Err(_)))
    });
    let settings = LdapConnSettings::new()
        .set_starttls(true)
        .set_conn_timeout(Duration::from_millis(200));
    let r = LdapConnAsync::with_settings(settings, &url).await;
    println!("client: {:?}", r.map(|_| ()));
    assert!(srv.await.unwrap(), "socket not closed after conn timeout");
}
