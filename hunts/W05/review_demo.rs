// Review of repair afa0e7f ("an adapted search stream survives a next() call abandoned while
// pending: the position in the adapter chain is resynchronised ...") and of its follow-up
// a056516.
//
// The repair resynchronises the chain position (SearchStream::ax) at the entry of start(),
// next() and finish(). The fourth public method which depends on that position,
// SearchStream::adapter_chain_tail(), was left out. Its documentation:
//
//     "Return a vector of the remaining adapters in the chain at the point of the method
//      call. [...] The purpose of this method is to enable uniformly configured Search calls
//      on the connections newly opened in an adapter."
//
// A user-written adapter which gives up a pending call up the chain (select! or a timeout
// around stream.next(), which is exactly the situation the repair is about) and then asks for
// the chain tail - e.g. a referral chaser that multiplexes the main stream with its
// sub-searches, and has to start another sub-search when one of *them* yields a referral -
// gets a tail computed from the stale position: the adapters below it are missing, so the
// follow-up search runs without them.
//
// Run with:
//   cd /tmp/wt-W05 && CARGO_NET_OFFLINE=true cargo test --offline --test review_demo -- --nocapture

use std::sync::{Arc, Mutex};
use std::time::Duration;

use async_trait::async_trait;
use ldap3::adapters::{Adapter, EntriesOnly};
use ldap3::result::{LdapResult, Result};
use ldap3::{LdapConnAsync, ResultEntry, Scope, SearchStream};
use tokio::io::{AsyncReadExt, AsyncWriteExt};
use tokio::net::TcpListener;

/// What the adapter saw: Debug renderings of the chain tail, taken (a) after a call up the
/// chain which completed and (b) after a call up the chain which was given up while pending.
#[derive(Default, Debug)]
struct Seen {
    tail_after_completed_call: Option<Vec<String>>,
    tail_after_given_up_call: Option<Vec<String>>,
}

/// A user-written adapter, first in the chain. It never waits for the server for more than
/// 100 ms at a time (like an adapter which has other streams to look after), and it asks for
/// the rest of the chain, as an adapter does which is about to start a sub-search that must
/// be configured like the one it is part of.
#[derive(Clone, Debug)]
struct Multiplexer {
    seen: Arc<Mutex<Seen>>,
}

#[async_trait]
impl<'a, S, A> Adapter<'a, S, A> for Multiplexer
where
    S: AsRef<str> + Send + Sync + 'a,
    A: AsRef<[S]> + Send + Sync + 'a,
{
    async fn start(
        &mut self,
        stream: &mut SearchStream<'a, S, A>,
        base: &str,
        scope: Scope,
        filter: &str,
        attrs: A,
    ) -> Result<()> {
        stream.start(base, scope, filter, attrs).await
    }

    async fn next(&mut self, stream: &mut SearchStream<'a, S, A>) -> Result<Option<ResultEntry>> {
        match tokio::time::timeout(Duration::from_millis(100), stream.next()).await {
            Ok(res) => {
                let tail = stream.adapter_chain_tail().await;
                self.seen.lock().unwrap().tail_after_completed_call =
                    Some(tail.iter().map(|a| format!("{:?}", a)).collect());
                res
            }
            Err(_elapsed) => {
                // The call up the chain has been given up while pending. The stream is
                // documented (by afa0e7f) to survive that.
                let tail = stream.adapter_chain_tail().await;
                self.seen.lock().unwrap().tail_after_given_up_call =
                    Some(tail.iter().map(|a| format!("{:?}", a)).collect());
                Ok(None)
            }
        }
    }

    async fn finish(&mut self, stream: &mut SearchStream<'a, S, A>) -> LdapResult {
        stream.finish().await
    }
}

fn search_entry(msgid: u8, dn: &str) -> Vec<u8> {
    // LDAPMessage { messageID, searchResEntry [APPLICATION 4] { objectName, attributes {} } }
    let mut entry = vec![0x04, dn.len() as u8];
    entry.extend_from_slice(dn.as_bytes());
    entry.extend_from_slice(&[0x30, 0x00]);
    let mut body = vec![0x02, 0x01, msgid, 0x64, entry.len() as u8];
    body.extend(entry);
    let mut msg = vec![0x30, body.len() as u8];
    msg.extend(body);
    msg
}

#[tokio::test]
async fn chain_tail_after_a_given_up_call_up_the_chain() {
    // Scripted server: answers the Search (message ID 1, the first operation on the
    // connection) with one entry and then stays silent, keeping the connection open.
    let listener = TcpListener::bind("127.0.0.1:0").await.unwrap();
    let port = listener.local_addr().unwrap().port();
    let server = tokio::spawn(async move {
        let (mut sock, _) = listener.accept().await.unwrap();
        let mut buf = [0u8; 1024];
        let n = sock.read(&mut buf).await.unwrap();
        assert!(n > 0, "the search request");
        sock.write_all(&search_entry(1, "cn=one")).await.unwrap();
        tokio::time::sleep(Duration::from_secs(30)).await;
        drop(sock);
    });

    let (conn, mut ldap) = LdapConnAsync::new(&format!("ldap://127.0.0.1:{}", port))
        .await
        .unwrap();
    ldap3::drive!(conn);

    let seen = Arc::new(Mutex::new(Seen::default()));
    let adapters: Vec<Box<dyn Adapter<_, _>>> = vec![
        Box::new(Multiplexer { seen: seen.clone() }),
        Box::new(EntriesOnly::new()),
    ];
    let mut stream = ldap
        .streaming_search_with(
            adapters,
            "dc=example,dc=org",
            Scope::Subtree,
            "(objectClass=*)",
            vec!["cn"],
        )
        .await
        .expect("search started");

    // First next(): the call up the chain completes with the entry.
    let first = stream.next().await.expect("first next()");
    assert!(first.is_some(), "the server's entry is delivered");
    // Second next(): the server is silent, the adapter gives its call up the chain up.
    let second = stream.next().await.expect("second next()");
    assert!(second.is_none());
    let _ = stream.finish().await;
    server.abort();

    let seen = seen.lock().unwrap();
    let completed = seen
        .tail_after_completed_call
        .clone()
        .expect("tail recorded after the completed call");
    let given_up = seen
        .tail_after_given_up_call
        .clone()
        .expect("tail recorded after the given-up call");
    println!("chain tail after a completed call up the chain: {:?}", completed);
    println!("chain tail after a given-up call up the chain:  {:?}", given_up);

    assert_eq!(
        completed.len(),
        1,
        "control: seen from the first of two adapters, the chain tail is the second adapter (EntriesOnly)"
    );
    assert!(completed[0].contains("EntriesOnly"));
    assert_eq!(
        given_up, completed,
        "expected: adapter_chain_tail() returns 'the remaining adapters in the chain at the point \
         of the method call' (its documentation) - for the first adapter of [Multiplexer, EntriesOnly] \
         that is [EntriesOnly], whether or not its previous call up the chain was given up while \
         pending; afa0e7f/a056516 promise that the chain position is resynchronised after such a \
         call, and do so in start(), next() and finish(). Got instead: a tail computed from the \
         stale position left behind by the given-up call ({:?}), i.e. the adapters below the \
         caller are missing and a sub-search configured from it runs without them",
        given_up
    );
}

// ---------------------------------------------------------------------------------------
// Secondary observation (repair 7c94cfa and its predecessors ef24d4d, 93895d9): "the result
// of the page just read is not the result of the search: finish() before the end must report
// cancellation". The three repairs clear SearchStream::res inside PagedResults::next(), i.e.
// only when the end of a page *reaches* PagedResults as Ok(None). With a user-written adapter
// between PagedResults and the stream ([PagedResults, X]) which fails on its own (or is given
// up) in the call that read the page's final message, the page result stays in the stream,
// and finish() on the failed, half-read search returns it: code 0 (success) with the paging
// control and a live cookie, instead of the synthetic code 88.
// ---------------------------------------------------------------------------------------

use ldap3::adapters::PagedResults;
use ldap3::result::LdapError;

fn tlv(tag: u8, content: &[u8]) -> Vec<u8> {
    let mut v = vec![tag, content.len() as u8];
    v.extend_from_slice(content);
    v
}

/// SearchResultDone, success, with a Paged Results response control carrying `cookie`.
fn search_done_with_cookie(msgid: u8, cookie: &[u8]) -> Vec<u8> {
    let mut res = tlv(0x0a, &[0]);
    res.extend(tlv(0x04, b""));
    res.extend(tlv(0x04, b""));
    let mut val = tlv(0x02, &[0]);
    val.extend(tlv(0x04, cookie));
    let val = tlv(0x30, &val);
    let mut ctl = tlv(0x04, b"1.2.840.113556.1.4.319");
    ctl.extend(tlv(0x04, &val));
    let mut body = tlv(0x02, &[msgid]);
    body.extend(tlv(0x65, &res));
    body.extend(tlv(0xa0, &tlv(0x30, &ctl)));
    tlv(0x30, &body)
}

/// A user-written adapter which fails on its own after having passed `left` items on,
/// whatever the call up the chain returned.
#[derive(Clone, Debug)]
struct FailAfter {
    left: u32,
}

#[async_trait]
impl<'a, S, A> Adapter<'a, S, A> for FailAfter
where
    S: AsRef<str> + Send + Sync + 'a,
    A: AsRef<[S]> + Send + Sync + 'a,
{
    async fn start(
        &mut self,
        stream: &mut SearchStream<'a, S, A>,
        base: &str,
        scope: Scope,
        filter: &str,
        attrs: A,
    ) -> Result<()> {
        stream.start(base, scope, filter, attrs).await
    }

    async fn next(&mut self, stream: &mut SearchStream<'a, S, A>) -> Result<Option<ResultEntry>> {
        let item = stream.next().await?;
        if self.left == 0 {
            return Err(LdapError::AdapterInit(String::from("FailAfter: own failure")));
        }
        self.left -= 1;
        Ok(item)
    }

    async fn finish(&mut self, stream: &mut SearchStream<'a, S, A>) -> LdapResult {
        stream.finish().await
    }
}

#[tokio::test]
async fn page_result_left_behind_when_an_adapter_below_pagedresults_fails_at_the_page_end() {
    // Server: page 1 = one entry, then SearchResultDone(success) with cookie "c1": there is
    // a second page, which is never asked for.
    let listener = TcpListener::bind("127.0.0.1:0").await.unwrap();
    let port = listener.local_addr().unwrap().port();
    let server = tokio::spawn(async move {
        let (mut sock, _) = listener.accept().await.unwrap();
        let mut buf = [0u8; 1024];
        let n = sock.read(&mut buf).await.unwrap();
        assert!(n > 0, "the search request");
        sock.write_all(&search_entry(1, "cn=one")).await.unwrap();
        sock.write_all(&search_done_with_cookie(1, b"c1")).await.unwrap();
        tokio::time::sleep(Duration::from_secs(30)).await;
        drop(sock);
    });
    let (conn, mut ldap) = LdapConnAsync::new(&format!("ldap://127.0.0.1:{}", port))
        .await
        .unwrap();
    ldap3::drive!(conn);
    let adapters: Vec<Box<dyn Adapter<_, _>>> = vec![
        Box::new(PagedResults::new(1)),
        Box::new(FailAfter { left: 1 }),
    ];
    let mut stream = ldap
        .streaming_search_with(adapters, "dc=example,dc=org", Scope::Subtree, "(cn=*)", vec!["cn"])
        .await
        .expect("search started");
    assert!(stream.next().await.expect("first next()").is_some());
    let second = stream.next().await;
    assert!(second.is_err(), "the adapter's own failure is reported: {:?}", second);
    let res = stream.finish().await;
    server.abort();
    assert_eq!(
        res.rc, 88,
        "expected: finish() on a paged search which failed after its first page returns the \
         synthetic 'user cancelled' result, code 88 (C10: the server's final result only if the \
         stream was read to the end; ef24d4d/93895d9/7c94cfa: 'the result of the page just read \
         is not the result of the search'). Got instead the first page's result, success with \
         the paging control and a live cookie: {:?}",
        res
    );
}
