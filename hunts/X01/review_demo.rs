// Review of repair 7d658d9 ("an operation whose request is stranded in the channel of a
// connection task that is ending returns an error").
//
// The repair makes the wait in Ldap::op_call end when the operation channel is seen closed:
//
//     tokio::select! {
//         biased;
//         res = rx => res,                      // (1) the response
//         _ = op_tx.closed() => <RecvError>,    // (2) the connection task is gone
//     }
//
// "biased" makes every poll look at (1) before (2), but the two looks are separate steps. The
// connection task hands a response over (oneshot send) and only then, on its way out, drops its
// end of the operation channel. If both happen between step (1) and step (2) of one poll - the
// caller's thread preempted there on a multi-thread runtime, which is the setting the repair is
// about - step (2) finds the channel closed and the operation returns "result recv error"
// although its response is sitting in its own result channel. Before the repair the operation
// returned that response. (Nothing looks at `rx` again after `closed()` has resolved.)
//
// That breaks the documented/required behaviour (property C04): when the connection goes away,
// "operations whose responses had been fully delivered still return them". For an Add/Modify the
// caller is told the operation failed although the server's success was received; for unbind()
// the caller gets an error for an Unbind that was sent and acknowledged.
//
// The interleaving is reproduced deterministically, without touching the library: the operation
// future is polled by hand on the test thread with a waker whose clone() is a hook. Within the
// first poll the future registers its waker twice: first the oneshot receiver (step 1, which
// re-checks for the value *after* the registration and returns Pending), then the Notified
// inside UnboundedSender::closed() (step 2), which clones the waker *before* it checks whether
// the channel was closed meanwhile. The second clone is therefore exactly a point "after (1),
// before (2)". There the hook lets the connection task - held back until then on its own
// thread - run to its end, just as a second worker thread would have done during a preemption.
//
// On the source before 7d658d9 there is no second registration; the harness then releases the
// connection task after the first poll, and the operation returns its response (test passes).

use std::future::Future;
use std::sync::atomic::{AtomicBool, AtomicUsize, Ordering::SeqCst};
use std::sync::mpsc as smpsc;
use std::sync::Mutex;
use std::task::{Context, Poll, RawWaker, RawWakerVTable, Waker};
use std::time::Duration;

use ldap3::tokio;
use ldap3::tokio::io::{AsyncReadExt, AsyncWriteExt};
use ldap3::{Ldap, LdapConnAsync};

/// State shared by the hand-made waker and the test.
struct Hook {
    clones: AtomicUsize,
    armed: AtomicBool,
    /// the hook ran (i.e., there was a second waker registration within the armed poll)
    fired: AtomicBool,
    /// the waker was woken: the oneshot sender does that when it hands the response over
    woken: AtomicBool,
    go: Mutex<Option<smpsc::Sender<()>>>,
    done: Mutex<Option<smpsc::Receiver<String>>>,
    /// how the connection task ended (the value of drive())
    drive_outcome: Mutex<Option<String>>,
}

impl Hook {
    /// Let the connection task (and the scripted server) run, and wait until drive() has
    /// returned, i.e., until the connection task is over and the LdapConnAsync dropped.
    fn release_conn_and_wait(&self) {
        if let Some(go) = self.go.lock().unwrap().take() {
            go.send(()).expect("go");
            let done = self.done.lock().unwrap().take().expect("done rx");
            let outcome = done
                .recv_timeout(Duration::from_secs(20))
                .expect("harness: the connection task did not end within 20 s");
            *self.drive_outcome.lock().unwrap() = Some(outcome);
        }
    }
}

unsafe fn hook_clone(p: *const ()) -> RawWaker {
    let h = &*(p as *const Hook);
    let n = h.clones.fetch_add(1, SeqCst) + 1;
    if h.armed.load(SeqCst) && n == 2 {
        h.fired.store(true, SeqCst);
        h.release_conn_and_wait();
    }
    RawWaker::new(p, &VTABLE)
}
unsafe fn hook_wake(p: *const ()) {
    (*(p as *const Hook)).woken.store(true, SeqCst);
}
unsafe fn hook_drop(_: *const ()) {}
static VTABLE: RawWakerVTable = RawWakerVTable::new(hook_clone, hook_wake, hook_wake, hook_drop);

/// What the in-process server does after it has read the client's first request.
#[derive(Clone, Copy)]
enum Script {
    /// answer with a BindResponse (success) for message ID 1, then close the connection
    BindResponseThenClose,
    /// just read until the client closes
    ReadToEnd,
}

/// Start a scripted server and a connection to it on a thread of their own (current-thread
/// runtime). The connection task is NOT driven until `go` fires; `done` reports drive()'s end.
fn setup(script: Script) -> (Ldap, &'static Hook) {
    let listener = std::net::TcpListener::bind("127.0.0.1:0").expect("bind");
    listener.set_nonblocking(true).unwrap();
    let url = format!("ldap://127.0.0.1:{}", listener.local_addr().unwrap().port());
    let (ldap_tx, ldap_rx) = smpsc::channel::<Ldap>();
    let (go_tx, go_rx) = smpsc::channel::<()>();
    let (done_tx, done_rx) = smpsc::channel::<String>();
    std::thread::spawn(move || {
        let rt = tokio::runtime::Builder::new_current_thread()
            .enable_all()
            .build()
            .unwrap();
        let outcome = rt.block_on(async move {
            let listener = tokio::net::TcpListener::from_std(listener).unwrap();
            tokio::spawn(async move {
                let (mut sock, _) = listener.accept().await.unwrap();
                // one whole LDAPMessage: 0x30, short-form length, contents
                let mut buf = vec![];
                let mut chunk = [0u8; 256];
                loop {
                    if buf.len() >= 2 && buf.len() >= 2 + buf[1] as usize {
                        break;
                    }
                    match sock.read(&mut chunk).await {
                        Ok(0) | Err(_) => return,
                        Ok(n) => buf.extend_from_slice(&chunk[..n]),
                    }
                }
                match script {
                    Script::BindResponseThenClose => {
                        // LDAPMessage { messageID 1, bindResponse { success, "", "" } }
                        let resp = [
                            0x30, 0x0c, 0x02, 0x01, 0x01, 0x61, 0x07, 0x0a, 0x01, 0x00, 0x04, 0x00,
                            0x04, 0x00,
                        ];
                        sock.write_all(&resp).await.unwrap();
                        let _ = sock.shutdown().await;
                        drop(sock);
                    }
                    Script::ReadToEnd => {
                        while let Ok(n) = sock.read(&mut chunk).await {
                            if n == 0 {
                                break;
                            }
                        }
                    }
                }
            });
            let (conn, ldap) = LdapConnAsync::new(&url).await.expect("connect");
            ldap_tx.send(ldap).unwrap();
            // This thread is the only one that can run the connection task: it is held here,
            // like a worker thread which hasn't got round to the task yet.
            go_rx.recv().expect("go");
            format!("{:?}", conn.drive().await)
            // drive() has consumed and dropped the LdapConnAsync: the result senders, then the
            // receiving end of the operation channel.
        });
        let _ = done_tx.send(outcome);
    });
    let ldap = ldap_rx
        .recv_timeout(Duration::from_secs(20))
        .expect("harness: no connection");
    let hook: &'static Hook = Box::leak(Box::new(Hook {
        clones: AtomicUsize::new(0),
        armed: AtomicBool::new(false),
        fired: AtomicBool::new(false),
        woken: AtomicBool::new(false),
        go: Mutex::new(Some(go_tx)),
        done: Mutex::new(Some(done_rx)),
        drive_outcome: Mutex::new(None),
    }));
    (ldap, hook)
}

/// Poll `fut` to completion on this thread. The first poll is made with the hook armed; if the
/// hook doesn't fire in it (source without the second registration), the connection task is
/// released after that poll instead.
fn run_with_hook<F: Future>(fut: F, hook: &'static Hook) -> F::Output {
    let mut fut = Box::pin(fut);
    let waker = unsafe { Waker::from_raw(RawWaker::new(hook as *const Hook as *const (), &VTABLE)) };
    let mut cx = Context::from_waker(&waker);
    hook.armed.store(true, SeqCst);
    let first = fut.as_mut().poll(&mut cx);
    hook.armed.store(false, SeqCst);
    if let Poll::Ready(out) = first {
        return out;
    }
    hook.release_conn_and_wait();
    for _ in 0..2000 {
        if let Poll::Ready(out) = fut.as_mut().poll(&mut cx) {
            return out;
        }
        std::thread::sleep(Duration::from_millis(5));
    }
    panic!("C04: the operation did not complete within 10 s after the connection task had ended");
}

/// The server answers the Bind with success and closes the connection. The connection task
/// delivers the response to the operation, reads the end of the stream and ends - all of it
/// between the moment op_call has looked at its result channel and the moment it looks at the
/// operation channel.
#[test]
fn response_delivered_then_connection_closed_between_the_two_looks() {
    let (mut ldap, hook) = setup(Script::BindResponseThenClose);
    let res = run_with_hook(ldap.simple_bind("cn=admin,dc=example,dc=org", "secret"), hook);
    let outcome = hook.drive_outcome.lock().unwrap().clone();
    let ctx = format!(
        "[connection task released at the second waker registration of the first poll: {}; \
         operation's waker woken by the delivery of its response: {}; drive() returned {:?}]",
        hook.fired.load(SeqCst),
        hook.woken.load(SeqCst),
        outcome
    );
    assert!(
        hook.woken.load(SeqCst),
        "harness: the BindResponse wasn't handed to the waiting operation {}",
        ctx
    );
    match res {
        Ok(r) => assert_eq!(
            r.rc, 0,
            "C03: the server's BindResponse carried success(0), got {} {}",
            r.rc, ctx
        ),
        Err(e) => panic!(
            "C04 (operations whose responses had been fully delivered still return them when the \
             connection goes away): the server's BindResponse (success) for message ID 1 had been \
             received and handed to the operation's result channel before the connection task \
             ended, so simple_bind() must return Ok(rc=0) - as it did before 7d658d9. \
             Instead it returned Err({:?}): op_call saw the operation channel closed after it had \
             looked at the result channel, and never looked at the result channel again. {}",
            e, ctx
        ),
    }
}

/// No server behaviour involved: the connection task sends the Unbind, shuts the transport
/// down, acknowledges the operation (Null result) and ends, dropping its end of the operation
/// channel - between the two looks of the waiting unbind().
#[test]
fn unbind_acknowledged_then_connection_task_ended_between_the_two_looks() {
    let (mut ldap, hook) = setup(Script::ReadToEnd);
    let res = run_with_hook(ldap.unbind(), hook);
    let outcome = hook.drive_outcome.lock().unwrap().clone();
    let ctx = format!(
        "[connection task released at the second waker registration of the first poll: {}; \
         operation's waker woken by the acknowledgement: {}; drive() returned {:?}]",
        hook.fired.load(SeqCst),
        hook.woken.load(SeqCst),
        outcome
    );
    assert!(
        hook.woken.load(SeqCst),
        "harness: the Unbind wasn't acknowledged to the waiting operation {}",
        ctx
    );
    assert!(
        res.is_ok(),
        "C04 / documented behaviour of Ldap::unbind() (\"Terminate the connection to the server\", \
         Ok(()) once the Unbind has been sent and the transport closed): the connection task sent \
         the UnbindRequest, closed the transport and acknowledged the operation before it ended, \
         so unbind() must return Ok(()) - as it did before 7d658d9. Instead it returned {:?}: \
         op_call saw the operation channel closed after it had looked at the result channel, and \
         never looked at the result channel again. {}",
        res, ctx
    );
}

/// Control: the same harness with the connection task released *between* two polls instead of
/// inside one. Passes before and after the repair; shows that the harness itself (manual
/// polling off-runtime, held-back connection task, scripted server) doesn't produce the error.
#[test]
fn control_same_exchange_without_the_interleaving() {
    let (mut ldap, hook) = setup(Script::BindResponseThenClose);
    let res = {
        let mut fut = Box::pin(ldap.simple_bind("cn=admin,dc=example,dc=org", "secret"));
        let waker =
            unsafe { Waker::from_raw(RawWaker::new(hook as *const Hook as *const (), &VTABLE)) };
        let mut cx = Context::from_waker(&waker);
        // hook not armed
        assert!(fut.as_mut().poll(&mut cx).is_pending());
        hook.release_conn_and_wait();
        match fut.as_mut().poll(&mut cx) {
            Poll::Ready(r) => r,
            Poll::Pending => panic!("control: still pending after the connection task has ended"),
        }
    };
    let r = res.expect("control: response delivered, then connection closed: Ok expected");
    assert_eq!(r.rc, 0);
}
