// C14 - The synchronous API is observationally identical to the asynchronous one.
//
// Scenario (identical scripted server for both APIs):
//   1. the client connects and does a simple Bind; the server answers success;
//   2. once the Bind call has returned to the caller, the server closes the connection (a
//      plain "disconnect" behaviour, happening while the client is between two calls);
//   3. well after the disconnect (the client is idle for a while, as every real client is
//      between two calls), the client asks is_closed() and then issues a Delete.
//
// With the asynchronous API the connection driver is a spawned task: it sees the end of the
// stream while the caller is idle, ends, and from then on is_closed() is true and every
// operation fails up front with LdapError::OpSend without touching the socket.
//
// LdapConn runs the very same driver on a private current-thread runtime which is only ever
// polled inside block_on(), i.e. while one of LdapConn's own methods is executing. Between two
// calls nobody drives the connection, so the disconnect goes unnoticed: is_closed() keeps
// answering false for as long as one cares to wait, and the next operation is accepted, handed
// to the driver (which, depending on which select! branch it happens to pick, even writes the
// request to the dead socket) and fails with a different error, LdapError::ResultRecv.

use std::io::{Read, Write};
use std::net::{Shutdown, TcpListener};
use std::sync::mpsc;
use std::thread;
use std::time::Duration;

use ldap3::{drive, LdapConn, LdapConnAsync, LdapError};

const SETTLE: Duration = Duration::from_millis(500);
const GUARD: Duration = Duration::from_secs(20);

/// BindResponse(success) for message id 1.
const BIND_OK: &[u8] = &[
    0x30, 0x0c, 0x02, 0x01, 0x01, 0x61, 0x07, 0x0a, 0x01, 0x00, 0x04, 0x00, 0x04, 0x00,
];

/// Scripted server: accept one connection, read the Bind request, answer success, wait until
/// the client's Bind call has returned (`go`), close the connection, then tell the test that
/// the connection is gone.
fn bind_then_disconnect() -> (String, mpsc::Sender<()>, mpsc::Receiver<()>) {
    let listener = TcpListener::bind("127.0.0.1:0").expect("bind");
    let url = format!("ldap://127.0.0.1:{}", listener.local_addr().unwrap().port());
    let (closed_tx, closed_rx) = mpsc::channel();
    let (go_tx, go_rx) = mpsc::channel::<()>();
    thread::spawn(move || {
        let (mut sock, _) = listener.accept().expect("accept");
        sock.set_read_timeout(Some(GUARD)).unwrap();
        // A simple Bind request is a single LDAPMessage: 30 <len> ...
        let mut hdr = [0u8; 2];
        sock.read_exact(&mut hdr).expect("bind request header");
        assert_eq!(hdr[0], 0x30);
        let mut body = vec![0u8; hdr[1] as usize];
        sock.read_exact(&mut body).expect("bind request body");
        sock.write_all(BIND_OK).expect("bind response");
        sock.flush().unwrap();
        go_rx.recv_timeout(GUARD).expect("client's Bind call returned");
        let _ = sock.shutdown(Shutdown::Both);
        drop(sock);
        drop(listener);
        let _ = closed_tx.send(());
    });
    (url, go_tx, closed_rx)
}

fn err_kind(e: &LdapError) -> String {
    match e {
        LdapError::OpSend { .. } => "OpSend".into(),
        LdapError::ResultRecv { .. } => "ResultRecv".into(),
        LdapError::Io { .. } => "Io".into(),
        other => format!("{:?}", other),
    }
}

/// What the caller can observe: (bind rc, is_closed() after the disconnect, outcome of Delete).
type Observation = (u32, bool, String);

fn run_async() -> Observation {
    let (url, go_tx, closed_rx) = bind_then_disconnect();
    // The same runtime flavour LdapConn uses internally.
    let rt = tokio::runtime::Builder::new_current_thread()
        .enable_all()
        .build()
        .unwrap();
    rt.block_on(async move {
        let (conn, mut ldap) = LdapConnAsync::new(&url).await.expect("async connect");
        drive!(conn);
        let bind = ldap.simple_bind("cn=u", "p").await.expect("async bind");
        go_tx.send(()).unwrap();
        // the caller is idle until well after the server has gone away
        tokio::task::spawn_blocking(move || closed_rx.recv_timeout(GUARD).expect("server closed"))
            .await
            .unwrap();
        tokio::time::sleep(SETTLE).await;
        let closed = ldap.is_closed();
        let del = tokio::time::timeout(GUARD, ldap.delete("cn=x"))
            .await
            .expect("async delete hang guard");
        let del = match del {
            Ok(r) => format!("Ok(rc={})", r.rc),
            Err(e) => format!("Err({})", err_kind(&e)),
        };
        (bind.rc, closed, del)
    })
}

fn run_sync() -> Observation {
    let (url, go_tx, closed_rx) = bind_then_disconnect();
    let mut ldap = LdapConn::new(&url).expect("sync connect");
    let bind = ldap.simple_bind("cn=u", "p").expect("sync bind");
    go_tx.send(()).unwrap();
    // the caller is idle until well after the server has gone away
    closed_rx.recv_timeout(GUARD).expect("server closed");
    thread::sleep(SETTLE);
    let closed = ldap.is_closed();
    let del = match ldap.with_timeout(GUARD).delete("cn=x") {
        Ok(r) => format!("Ok(rc={})", r.rc),
        Err(e) => format!("Err({})", err_kind(&e)),
    };
    (bind.rc, closed, del)
}

#[test]
fn sync_and_async_agree_after_a_server_disconnect_between_calls() {
    let a = run_async();
    let s = run_sync();
    eprintln!("async (Ldap)     : bind rc={}, is_closed()={}, delete -> {}", a.0, a.1, a.2);
    eprintln!("sync  (LdapConn) : bind rc={}, is_closed()={}, delete -> {}", s.0, s.1, s.2);

    assert_eq!(a.0, 0, "scenario: the async Bind succeeds");
    assert_eq!(s.0, 0, "scenario: the sync Bind succeeds");

    assert_eq!(
        s.1, a.1,
        "C14 demands that LdapConn::is_closed() return what Ldap::is_closed() returns against \
         the same server behaviour (Bind answered, then the server disconnects, then the client \
         is idle for {:?}): Ldap::is_closed() = {}, but LdapConn::is_closed() = {} - the \
         connection driver of an LdapConn is never polled between two calls, so the \
         disconnect is not noticed",
        SETTLE, a.1, s.1
    );
    assert_eq!(
        s.2, a.2,
        "C14 demands that LdapConn::delete() return the same error as Ldap::delete() after the \
         server has disconnected: Ldap::delete() -> {}, but LdapConn::delete() -> {}",
        a.2, s.2
    );
}

/// The same thing seen through the error of the next operation alone (no is_closed() call in
/// the sequence), so that the two manifestations are reported separately.
#[test]
fn sync_and_async_report_the_same_error_for_an_operation_after_a_disconnect() {
    let a = run_async();
    let s = run_sync();
    assert_eq!(
        s.2, a.2,
        "C14 demands identical errors from the sync and the async API: after the server has \
         answered the Bind and disconnected, Ldap::delete() fails with {} (the operation is \
         refused up front, nothing is handed to the driver), but LdapConn::delete() fails \
         with {} (the operation is accepted and handed to a driver which only now finds \
         out that the connection is gone)",
        a.2, s.2
    );
}
