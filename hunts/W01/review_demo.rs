// Review of the repairs 7139e0c e24fe6f 1a2b489 c7eedc0 8cac93f 39c589f 73a2acc.
//
// PRIMARY FINDING (repair 1a2b489, src/conn.rs: LdapConnAsync::new_tcp)
//
// The repair replaced the panicking catch-all arm of the host match with "localhost":
//
//     let (_hostname, host_port) = match url.host_str() {
//         Some(h) if !h.is_empty() => (.., format!("{}:{}", h, port)),
//         _ => ("localhost", format!("localhost:{}", port)),
//     };
//
// `ldap:///` (an authority which is present and empty) is what the repair is about, and RFC 4516
// allows it. But url.host_str() is also None for every string of the form `ldap:<anything
// without //>`, which the `url` crate parses as a scheme with an opaque path. Such a string is
// not an LDAP URL: RFC 4516, section 2,
//
//     ldapurl = scheme COLON SLASH SLASH [host [COLON port]] [SLASH dn ...]
//
// makes the two slashes mandatory. Before the repair these strings panicked; now
// `ldap:ldap.example.com` and `ldap:ldap.example.com:1389` (slashes forgotten) are accepted
// and the host the caller wrote is silently replaced by localhost:389 - the following Bind
// carries the caller's credentials to whatever listens on the local machine. Property C18:
// "unparsable URLs ... return an error"; only "a missing host" means localhost.
//
// SECONDARY (repair c7eedc0, incomplete): see the second test.

use std::io::{ErrorKind, Read, Write};
use std::net::{TcpListener, TcpStream};
use std::time::{Duration, Instant};

use async_trait::async_trait;
use ldap3::adapters::{Adapter, SoloMarker};
use ldap3::result::{LdapResult, Result};
use ldap3::{
    LdapConn, LdapConnAsync, LdapConnSettings, LdapError, ResultEntry, Scope, SearchStream,
};

/// Did anybody connect to one of the listeners within `wait`?
fn accepted(listeners: &[TcpListener], wait: Duration) -> bool {
    let until = Instant::now() + wait;
    loop {
        for l in listeners {
            if l.accept().is_ok() {
                return true;
            }
        }
        if Instant::now() >= until {
            return false;
        }
        std::thread::sleep(Duration::from_millis(10));
    }
}

fn describe<T>(res: &std::result::Result<T, LdapError>) -> String {
    match res {
        Ok(_) => String::from("Ok(a usable connection)"),
        Err(e) => format!("Err({:?})", e),
    }
}

/// A connection attempt shows as an accepted connection (if the test could occupy the LDAP
/// port of the local machine), as a usable handle, or as "connection refused".
fn attempt_visible<T>(res: &std::result::Result<T, LdapError>) -> bool {
    match res {
        Ok(_) => true,
        Err(LdapError::Io { source }) => source.kind() == ErrorKind::ConnectionRefused,
        Err(_) => false,
    }
}

#[test]
fn a_string_without_the_double_slash_is_not_an_ldap_url_and_must_not_reach_localhost() {
    // Occupy localhost:389 where the sandbox allows it, to see the connection arrive. If it
    // can't be done the verdict rests on the returned value alone.
    let mut listeners = vec![];
    for addr in ["127.0.0.1:389", "[::1]:389"] {
        if let Ok(l) = TcpListener::bind(addr) {
            l.set_nonblocking(true).unwrap();
            listeners.push(l);
        }
    }
    let rt = tokio::runtime::Builder::new_current_thread()
        .enable_all()
        .build()
        .unwrap();
    for url in ["ldap:ldap.example.com", "ldap:ldap.example.com:1389"] {
        // asynchronous constructor
        let res = rt.block_on(async {
            tokio::time::timeout(Duration::from_secs(10), LdapConnAsync::new(url))
                .await
                .expect("LdapConnAsync::new() did not return")
        });
        let seen = accepted(&listeners, Duration::from_millis(300));
        assert!(
            !(seen || attempt_visible(&res)),
            "LdapConnAsync::new({:?}): expected an error without any connection attempt - RFC 4516 \
             section 2 requires \"//\" after the scheme, so this is not an LDAP URL (C18: unparsable \
             URLs return an error), and the host written in it is certainly not localhost. Instead \
             the library went for localhost:389: connection accepted by the test's listener on \
             port 389 = {}, returned {}",
            url,
            seen,
            describe(&res)
        );
        drop(res);
        // synchronous constructor (same path; C14)
        let settings = LdapConnSettings::new().set_conn_timeout(Duration::from_secs(10));
        let res = LdapConn::with_settings(settings, url);
        let seen = accepted(&listeners, Duration::from_millis(300));
        assert!(
            !(seen || attempt_visible(&res)),
            "LdapConn::with_settings({:?}): expected an error without any connection attempt \
             (RFC 4516 section 2: the \"//\" is mandatory); instead localhost:389 was contacted: \
             accepted by the test's listener = {}, returned {}",
            url,
            seen,
            describe(&res)
        );
    }
}

// SECONDARY FINDING (repair c7eedc0, incomplete; src/sync.rs: EntryStream::last_id,
// src/search.rs: SearchStream has no accessor for msgid)
//
// c7eedc0 states the defect as "the handle's own record of [the Search's ID] (last_id) is
// overwritten by any operation issued through ldap_handle()", and gives the stream a record of
// its own - but only finish() and the timed-out next() were switched over to it. The third
// consumer of the same value is the public one: EntryStream::last_id() is documented as
// "Returns the Message ID of the initial Search" and is what examples/search_entrystream_sync.rs
// and examples/search_abandon.rs tell the user to pass to abandon(). It still reads the handle's
// last_id, so with an adapter which issues an operation through the stream's handle (the very
// situation of the repair) the documented way of abandoning a Search names a wrong operation,
// and the Search keeps running on the server.

// --- a few octets of BER, for the scripted server ---
fn tlv(tag: u8, content: &[u8]) -> Vec<u8> {
    assert!(content.len() < 128);
    let mut v = vec![tag, content.len() as u8];
    v.extend_from_slice(content);
    v
}
fn msg(id: u8, op: Vec<u8>) -> Vec<u8> {
    let mut c = tlv(0x02, &[id]);
    c.extend(op);
    tlv(0x30, &c)
}
fn result_op(tag: u8, rc: u8) -> Vec<u8> {
    let mut c = tlv(0x0a, &[rc]);
    c.extend(tlv(0x04, b""));
    c.extend(tlv(0x04, b""));
    tlv(tag, &c)
}
fn entry(dn: &str) -> Vec<u8> {
    let mut c = tlv(0x04, dn.as_bytes());
    c.extend(tlv(0x30, b""));
    tlv(0x64, &c)
}
/// Read one LDAPMessage (short lengths and one-octet IDs suffice here): (id, op tag, op content).
fn read_msg(s: &mut TcpStream) -> Option<(u8, u8, Vec<u8>)> {
    let mut hdr = [0u8; 2];
    s.read_exact(&mut hdr).ok()?;
    assert_eq!(hdr[0], 0x30);
    assert!(hdr[1] < 0x80, "the test's requests are short");
    let mut body = vec![0u8; hdr[1] as usize];
    s.read_exact(&mut body).ok()?;
    assert_eq!(&body[..2], &[0x02, 0x01]);
    let oplen = body[4] as usize;
    Some((body[2], body[3], body[5..5 + oplen].to_vec()))
}

/// An adapter which looks something up through the stream's handle for each entry.
#[derive(Clone, Debug)]
struct Lookup;
impl SoloMarker for Lookup {}
#[async_trait]
impl<'a, S, A> Adapter<'a, S, A> for Lookup
where
    S: AsRef<str> + Send + Sync + 'a,
    A: AsRef<[S]> + Send + Sync + 'a,
{
    async fn start(
        &mut self,
        stream: &mut SearchStream<'a, S, A>,
        base: &str,
        scope: Scope,
        filter: &str,
        attrs: A,
    ) -> Result<()> {
        stream.start(base, scope, filter, attrs).await
    }
    async fn next(&mut self, stream: &mut SearchStream<'a, S, A>) -> Result<Option<ResultEntry>> {
        let item = stream.next().await?;
        if item.is_some() {
            stream.ldap_handle().compare("cn=a", "cn", "a").await?;
        }
        Ok(item)
    }
    async fn finish(&mut self, stream: &mut SearchStream<'a, S, A>) -> LdapResult {
        stream.finish().await
    }
}

#[test]
fn entrystream_last_id_names_the_search_after_an_adapter_used_the_handle() {
    let listener = TcpListener::bind("127.0.0.1:0").unwrap();
    let url = format!("ldap://127.0.0.1:{}", listener.local_addr().unwrap().port());
    let server = std::thread::spawn(move || {
        let (mut s, _) = listener.accept().unwrap();
        let (search_id, op, _) = read_msg(&mut s).unwrap();
        assert_eq!(op, 0x63, "SearchRequest expected first");
        s.write_all(&msg(search_id, entry("cn=a"))).unwrap();
        let (cmp_id, op, _) = read_msg(&mut s).unwrap();
        assert_eq!(op, 0x6e, "CompareRequest of the adapter expected");
        s.write_all(&msg(cmp_id, result_op(0x6f, 6))).unwrap();
        let (_, op, content) = read_msg(&mut s).unwrap();
        assert_eq!(op, 0x50, "AbandonRequest expected");
        let _ = read_msg(&mut s); // unbind
        (search_id, cmp_id, content)
    });
    let mut ldap = LdapConn::new(&url).unwrap();
    let mut search = ldap
        .streaming_search_with(Lookup, "dc=x", Scope::Subtree, "(a=b)", vec!["cn"])
        .unwrap();
    assert!(search.next().unwrap().is_some());
    // The procedure of examples/search_entrystream_sync.rs for abandoning a Search:
    let msgid = search.last_id();
    let _res = search.result();
    ldap.abandon(msgid).unwrap();
    let _ = ldap.unbind();
    let (search_id, cmp_id, abandoned) = server.join().unwrap();
    assert_eq!(
        (msgid as u8, abandoned.as_slice()),
        (search_id, &[search_id][..]),
        "EntryStream::last_id() is documented to return the message ID of the Search (sync.rs; \
         examples/search_entrystream_sync.rs passes it to abandon()). The SearchRequest went out \
         with ID {}, the adapter's Compare through the stream's handle with ID {}. Expected \
         last_id() = {} and an AbandonRequest naming {}; got last_id() = {} and an AbandonRequest \
         naming {:?}: the Search is left running on the server. (c7eedc0 gave the stream its own \
         record of the ID for exactly this situation, but the public accessor still reads the \
         handle's last_id.)",
        search_id,
        cmp_id,
        search_id,
        search_id,
        msgid,
        abandoned
    );
}
