// Checks run during the review of the repairs
// 1df3f79 e24fe6f 52c20d5 8ceecf3 2f3cbdd 5079770.
//
// A scripted in-process TCP server speaks raw LDAP bytes. The id-table checks use the
// crate's cfg(ldap3_verif) accessors when the crate is built with that cfg; without it
// they are skipped and only the behaviour visible through the public API is checked.

use std::collections::HashSet;
use std::time::Duration;

use ldap3::controls::RawControl;
use ldap3::{LdapConnAsync, Mod, Scope, SearchOptions, StreamState};
use tokio::io::{AsyncReadExt, AsyncWriteExt};
use tokio::net::{TcpListener, TcpStream};
use tokio::time::{sleep, timeout};

// ---------- raw LDAP helpers ----------

fn ber_len(n: usize) -> Vec<u8> {
    if n < 128 {
        vec![n as u8]
    } else if n < 256 {
        vec![0x81, n as u8]
    } else {
        vec![0x82, (n >> 8) as u8, n as u8]
    }
}

fn tlv(tag: u8, content: &[u8]) -> Vec<u8> {
    let mut v = vec![tag];
    v.extend(ber_len(content.len()));
    v.extend_from_slice(content);
    v
}

fn int_content(id: i32) -> Vec<u8> {
    let mut b = id.to_be_bytes().to_vec();
    while b.len() > 1 && b[0] == 0 && b[1] & 0x80 == 0 {
        b.remove(0);
    }
    b
}

fn envelope(id: i32, op: Vec<u8>, ctrls: Option<Vec<u8>>) -> Vec<u8> {
    let mut c = tlv(0x02, &int_content(id));
    c.extend(op);
    if let Some(ct) = ctrls {
        c.extend(ct);
    }
    tlv(0x30, &c)
}

fn result_op(app_tag: u8, rc: u8, text: &str) -> Vec<u8> {
    let mut c = tlv(0x0a, &[rc]);
    c.extend(tlv(0x04, b""));
    c.extend(tlv(0x04, text.as_bytes()));
    tlv(app_tag, &c)
}

fn entry_op(dn: &str) -> Vec<u8> {
    let mut c = tlv(0x04, dn.as_bytes());
    c.extend(tlv(0x30, b""));
    tlv(0x64, &c)
}

#[derive(Debug)]
struct Req {
    id: i32,
    op_tag: u8,
    raw: Vec<u8>,
}

async fn read_req(s: &mut TcpStream) -> Option<Req> {
    let mut hdr = [0u8; 2];
    if s.read_exact(&mut hdr).await.is_err() {
        return None;
    }
    assert_eq!(hdr[0], 0x30);
    let mut raw = hdr.to_vec();
    let len = if hdr[1] < 128 {
        hdr[1] as usize
    } else {
        let n = (hdr[1] & 0x7f) as usize;
        let mut lb = vec![0u8; n];
        s.read_exact(&mut lb).await.ok()?;
        raw.extend(&lb);
        lb.iter().fold(0usize, |a, b| (a << 8) | *b as usize)
    };
    let mut body = vec![0u8; len];
    s.read_exact(&mut body).await.ok()?;
    raw.extend(&body);
    assert_eq!(body[0], 0x02);
    let il = body[1] as usize;
    let id = body[2..2 + il].iter().fold(0i32, |a, b| (a << 8) | *b as i32);
    let op_tag = body[2 + il];
    Some(Req { id, op_tag, raw })
}

fn contains(hay: &[u8], needle: &[u8]) -> bool {
    hay.windows(needle.len()).any(|w| w == needle)
}

async fn listen() -> (TcpListener, String) {
    let l = TcpListener::bind("127.0.0.1:0").await.unwrap();
    let url = format!("ldap://127.0.0.1:{}", l.local_addr().unwrap().port());
    (l, url)
}

#[cfg(ldap3_verif)]
fn ids_in_use(ldap: &ldap3::Ldap) -> Option<Vec<i32>> {
    Some(ldap.verif_id_table().1)
}
#[cfg(not(ldap3_verif))]
fn ids_in_use(_ldap: &ldap3::Ldap) -> Option<Vec<i32>> {
    None
}

// ---------- 1df3f79 ----------

#[tokio::test]
async fn c02_local_rejection_consumes_modifiers() {
    let (l, url) = listen().await;
    let srv = tokio::spawn(async move {
        let (mut s, _) = l.accept().await.unwrap();
        let mut seen = vec![];
        while let Some(r) = read_req(&mut s).await {
            match r.op_tag {
                0x4a => s
                    .write_all(&envelope(r.id, result_op(0x6b, 0, ""), None))
                    .await
                    .unwrap(),
                0x63 => s
                    .write_all(&envelope(r.id, result_op(0x65, 0, ""), None))
                    .await
                    .unwrap(),
                0x68 => s
                    .write_all(&envelope(r.id, result_op(0x69, 0, ""), None))
                    .await
                    .unwrap(),
                0x66 => s
                    .write_all(&envelope(r.id, result_op(0x67, 0, ""), None))
                    .await
                    .unwrap(),
                _ => (),
            }
            seen.push(r);
        }
        seen
    });
    let (conn, mut ldap) = LdapConnAsync::new(&url).await.unwrap();
    ldap3::drive!(conn);
    let ctrl = RawControl {
        ctype: "1.2.3.4.5".to_owned(),
        crit: true,
        val: None,
    };
    // add
    let r = ldap
        .with_controls(ctrl.clone())
        .with_timeout(Duration::from_millis(30))
        .with_search_options(SearchOptions::new().sizelimit(7))
        .add("cn=x", vec![("cn", HashSet::<&str>::new())])
        .await;
    assert!(r.is_err());
    assert!(ldap.controls.is_none() && ldap.timeout.is_none() && ldap.search_opts.is_none());
    // modify
    let r = ldap
        .with_controls(ctrl.clone())
        .with_timeout(Duration::from_millis(30))
        .with_search_options(SearchOptions::new().sizelimit(7))
        .modify("cn=x", vec![Mod::Add("cn", HashSet::<&str>::new())])
        .await;
    assert!(r.is_err());
    assert!(ldap.controls.is_none() && ldap.timeout.is_none() && ldap.search_opts.is_none());
    // legal: Modify delete/replace with no values must still be sent (RFC 4511 4.6)
    let r = ldap
        .modify(
            "cn=x",
            vec![
                Mod::Delete("cn", HashSet::<&str>::new()),
                Mod::Replace("sn", HashSet::<&str>::new()),
            ],
        )
        .await
        .unwrap();
    assert_eq!(r.rc, 0);
    // legal add goes out with its own controls, next op without
    let r = ldap
        .with_controls(ctrl.clone())
        .add("cn=x", vec![("cn", HashSet::from(["x"]))])
        .await
        .unwrap();
    assert_eq!(r.rc, 0);
    ldap.delete("cn=x").await.unwrap();
    let (rs, _res) = ldap
        .search("", Scope::Base, "(objectClass=*)", vec!["*"])
        .await
        .unwrap()
        .success()
        .unwrap();
    assert!(rs.is_empty());
    ldap.unbind().await.unwrap();
    let seen = srv.await.unwrap();
    let ops: Vec<u8> = seen.iter().map(|r| r.op_tag).collect();
    assert_eq!(ops, vec![0x66, 0x68, 0x4a, 0x63, 0x42]);
    assert!(!contains(&seen[0].raw, b"1.2.3.4.5"));
    assert!(contains(&seen[1].raw, b"1.2.3.4.5"));
    assert!(!contains(&seen[2].raw, b"1.2.3.4.5"));
    assert!(!contains(&seen[3].raw, b"1.2.3.4.5"));
    // sizelimit of the search is 0
    assert!(contains(&seen[3].raw, &[0x0a, 0x01, 0x00, 0x0a, 0x01, 0x00, 0x02, 0x01, 0x00, 0x02, 0x01, 0x00]));
}

// ---------- e24fe6f, 52c20d5 ----------

#[tokio::test]
async fn c10_direct_stream_state_machine_and_id_release() {
    let (l, url) = listen().await;
    let srv = tokio::spawn(async move {
        let (mut s, _) = l.accept().await.unwrap();
        while let Some(r) = read_req(&mut s).await {
            if r.op_tag == 0x63 {
                let mut out = envelope(r.id, entry_op("cn=a"), None);
                // reference
                out.extend(envelope(
                    r.id,
                    tlv(0x73, &tlv(0x04, b"ldap://x/")),
                    None,
                ));
                // intermediate
                out.extend(envelope(r.id, tlv(0x79, b""), None));
                out.extend(envelope(r.id, entry_op("cn=b"), None));
                // done, with a control
                let ctl = tlv(0xa0, &tlv(0x30, &tlv(0x04, b"9.9.9")));
                out.extend(envelope(r.id, result_op(0x65, 4, "size"), Some(ctl)));
                s.write_all(&out).await.unwrap();
            }
        }
    });
    let (conn, mut ldap) = LdapConnAsync::new(&url).await.unwrap();
    ldap3::drive!(conn);
    let mut st = ldap
        .streaming_search("", Scope::Subtree, "(a=b)", vec!["x"])
        .await
        .unwrap();
    assert_eq!(st.state(), StreamState::Active);
    let mut n = 0;
    while let Some(_e) = st.next().await.unwrap() {
        n += 1;
    }
    assert_eq!(n, 4);
    assert_eq!(st.state(), StreamState::Done);
    assert!(st.next().await.unwrap().is_none());
    assert!(st.next().await.unwrap().is_none());
    if let Some(ids) = ids_in_use(&ldap) {
        assert!(ids.is_empty(), "ids after search done: {:?}", ids);
    }
    let r = st.finish().await;
    assert_eq!(r.rc, 4);
    assert_eq!(r.text, "size");
    assert_eq!(r.ctrls.len(), 1);
    assert_eq!(st.state(), StreamState::Closed);
    assert_eq!(st.finish().await.rc, 80);
    assert!(st.next().await.unwrap().is_none());

    // early finish
    let mut st = ldap
        .streaming_search("", Scope::Subtree, "(a=b)", vec!["x"])
        .await
        .unwrap();
    assert!(st.next().await.unwrap().is_some());
    assert_eq!(st.finish().await.rc, 88);
    assert_eq!(st.finish().await.rc, 80);
    // a round trip so that the scrub has been handled
    let _ = ldap.search("", Scope::Base, "(a=b)", vec!["x"]).await.unwrap();
    if let Some(ids) = ids_in_use(&ldap) {
        assert!(ids.is_empty(), "ids after early finish: {:?}", ids);
    }
    // search(): entries only, refs merged
    let ldap3::SearchResult(es, res) = ldap.search("", Scope::Base, "(a=b)", vec!["x"]).await.unwrap();
    assert_eq!(es.len(), 2);
    assert_eq!(res.refs, vec!["ldap://x/".to_string()]);
    assert_eq!(res.rc, 4);
    drop(st);
    ldap.unbind().await.unwrap();
    srv.await.unwrap();
}

// ---------- 8ceecf3 ----------

#[tokio::test]
async fn c13_abandon_releases_waiter_and_id() {
    let (l, url) = listen().await;
    let (seen_tx, mut seen_rx) = tokio::sync::mpsc::unbounded_channel();
    let srv = tokio::spawn(async move {
        let (mut s, _) = l.accept().await.unwrap();
        while let Some(r) = read_req(&mut s).await {
            if r.op_tag == 0x63 && contains(&r.raw, b"stream") {
                s.write_all(&envelope(r.id, entry_op("cn=a"), None)).await.unwrap();
            }
            if r.op_tag == 0x77 {
                s.write_all(&envelope(r.id, result_op(0x78, 0, ""), None)).await.unwrap();
            }
            seen_tx.send(r).unwrap();
        }
    });
    let (conn, mut ldap) = LdapConnAsync::new(&url).await.unwrap();
    ldap3::drive!(conn);
    // pending single op
    let mut l2 = ldap.clone();
    let waiter = tokio::spawn(async move { l2.compare("cn=x", "a", "b").await.map(|_| ()) });
    let r = seen_rx.recv().await.unwrap();
    assert_eq!(r.op_tag, 0x6e);
    ldap.abandon(r.id).await.unwrap();
    let w = timeout(Duration::from_secs(2), waiter).await.expect("abandoned caller released").unwrap();
    assert!(w.is_err());
    let a = seen_rx.recv().await.unwrap();
    assert_eq!(a.op_tag, 0x50);
    assert_eq!(&a.raw[a.raw.len() - 3..], &[0x50, 0x01, r.id as u8]);
    if let Some(ids) = ids_in_use(&ldap) {
        assert!(ids.is_empty(), "ids after abandon of single: {:?}", ids);
    }
    // pending search stream
    let mut st = ldap
        .streaming_search("o=stream", Scope::Subtree, "(a=b)", vec!["x"])
        .await
        .unwrap();
    let r = seen_rx.recv().await.unwrap();
    assert!(st.next().await.unwrap().is_some());
    let mid = st.ldap_handle().last_id();
    assert_eq!(mid, r.id);
    ldap.abandon(mid).await.unwrap();
    let e = timeout(Duration::from_secs(2), st.next()).await.expect("abandoned stream released");
    assert!(e.is_err());
    assert_eq!(st.state(), StreamState::Error);
    assert_eq!(st.finish().await.rc, 88);
    let _ = seen_rx.recv().await.unwrap();
    let x = ldap.extended(ldap3::exop::WhoAmI).await.unwrap();
    assert_eq!(x.1.rc, 0);
    if let Some(ids) = ids_in_use(&ldap) {
        assert!(ids.is_empty(), "ids after abandon of search: {:?}", ids);
    }
    // abandon of an unknown id is harmless
    ldap.abandon(4242).await.unwrap();
    // abandon of a stream which has been finished early (examples/search_abandon.rs)
    let mut st = ldap
        .streaming_search("o=stream", Scope::Subtree, "(a=b)", vec!["x"])
        .await
        .unwrap();
    assert!(st.next().await.unwrap().is_some());
    assert_eq!(st.finish().await.rc, 88);
    let mid = st.ldap_handle().last_id();
    ldap.abandon(mid).await.unwrap();
    let x = ldap.extended(ldap3::exop::WhoAmI).await.unwrap();
    assert_eq!(x.1.rc, 0);
    if let Some(ids) = ids_in_use(&ldap) {
        assert!(ids.is_empty(), "ids at the end: {:?}", ids);
    }
    drop(st);
    ldap.unbind().await.unwrap();
    srv.await.unwrap();
}

// ---------- 2f3cbdd ----------

#[tokio::test]
async fn c04_unbind_fails_pending_and_closes() {
    let (l, url) = listen().await;
    let (seen_tx, mut seen_rx) = tokio::sync::mpsc::unbounded_channel();
    let srv = tokio::spawn(async move {
        let (mut s, _) = l.accept().await.unwrap();
        while let Some(r) = read_req(&mut s).await {
            if r.op_tag == 0x63 {
                s.write_all(&envelope(r.id, entry_op("cn=a"), None)).await.unwrap();
            }
            if r.op_tag == 0x77 {
                s.write_all(&envelope(r.id, result_op(0x78, 0, ""), None)).await.unwrap();
            }
            seen_tx.send(r.op_tag).unwrap();
        }
        // EOF seen: transport closed by the client
        seen_tx.send(0xff).unwrap();
        // server keeps its side open for a while
        sleep(Duration::from_millis(500)).await;
    });
    let (conn, mut ldap) = LdapConnAsync::new(&url).await.unwrap();
    let drv = tokio::spawn(conn.drive());
    let x = ldap.extended(ldap3::exop::WhoAmI).await.unwrap();
    assert_eq!(x.1.rc, 0);
    assert_eq!(seen_rx.recv().await.unwrap(), 0x77);
    let mut l2 = ldap.clone();
    let waiter = tokio::spawn(async move { l2.compare("cn=x", "a", "b").await.map(|_| ()) });
    assert_eq!(seen_rx.recv().await.unwrap(), 0x6e);
    let mut st = ldap
        .streaming_search("", Scope::Subtree, "(a=b)", vec!["x"])
        .await
        .unwrap();
    assert_eq!(seen_rx.recv().await.unwrap(), 0x63);
    let mut l3 = ldap.clone();
    ldap.unbind().await.unwrap();
    let w = timeout(Duration::from_secs(2), waiter).await.expect("pending op fails after unbind").unwrap();
    assert!(w.is_err());
    // the entry which had been received may or may not be delivered; then an error
    let mut got_err = false;
    for _ in 0..3 {
        match timeout(Duration::from_secs(2), st.next()).await.expect("stream ends after unbind") {
            Ok(Some(_)) => continue,
            Ok(None) => panic!("stream reported a normal end after unbind"),
            Err(_) => {
                got_err = true;
                break;
            }
        }
    }
    assert!(got_err);
    assert_eq!(st.finish().await.rc, 88);
    assert_eq!(seen_rx.recv().await.unwrap(), 0x42);
    assert_eq!(
        timeout(Duration::from_secs(2), seen_rx.recv()).await.expect("transport closed after unbind").unwrap(),
        0xff
    );
    let d = timeout(Duration::from_secs(2), drv).await.expect("driver ends").unwrap();
    assert!(d.is_ok());
    assert!(l3.is_closed());
    assert!(timeout(Duration::from_secs(2), l3.delete("cn=x")).await.expect("later op fails at once").is_err());
    assert!(timeout(Duration::from_secs(2), ldap.unbind()).await.expect("second unbind fails at once").is_err());
    if let Some(ids) = ids_in_use(&ldap) {
        assert!(ids.is_empty(), "ids after unbind: {:?}", ids);
    }
    srv.await.unwrap();
}

// ---------- 5079770 ----------

#[tokio::test]
async fn c12_timeouts_and_late_replies() {
    let (l, url) = listen().await;
    let srv = tokio::spawn(async move {
        let (mut s, _) = l.accept().await.unwrap();
        let mut late: Vec<Vec<u8>> = vec![];
        while let Some(r) = read_req(&mut s).await {
            match r.op_tag {
                0x6e => late.push(envelope(r.id, result_op(0x6f, 6, "late"), None)),
                0x63 if contains(&r.raw, b"slow") => {
                    late.push(envelope(r.id, entry_op("cn=late"), None));
                    late.push(envelope(r.id, result_op(0x65, 0, "late"), None));
                }
                0x63 => {
                    s.write_all(&envelope(r.id, entry_op("cn=a"), None)).await.unwrap();
                    s.write_all(&envelope(r.id, result_op(0x65, 0, ""), None)).await.unwrap();
                }
                0x77 => {
                    for m in late.drain(..) {
                        s.write_all(&m).await.unwrap();
                    }
                    s.write_all(&envelope(r.id, result_op(0x78, 0, "who"), None)).await.unwrap();
                }
                _ => (),
            }
        }
    });
    let (conn, mut ldap) = LdapConnAsync::new(&url).await.unwrap();
    ldap3::drive!(conn);
    for _ in 0..20 {
        let r = ldap
            .with_timeout(Duration::from_millis(20))
            .compare("cn=x", "a", "b")
            .await;
        assert!(r.is_err());
        // zero timeout: the caller has given up before the driver sees the operation
        let r = ldap
            .with_timeout(Duration::from_millis(0))
            .compare("cn=x", "a", "b")
            .await;
        assert!(r.is_err());
        // (a zero timeout may or may not fire before the driver has sent the request)
        match ldap
            .with_timeout(Duration::from_millis(0))
            .streaming_search("o=slow", Scope::Subtree, "(a=b)", vec!["x"])
            .await
        {
            Err(_) => (),
            Ok(mut st) => {
                assert!(st.next().await.is_err());
                assert_eq!(st.finish().await.rc, 88);
            }
        }
        // a caller which goes away without a timeout (future dropped after the first poll)
        {
            use futures::FutureExt;
            assert!(ldap.compare("cn=x", "a", "b").now_or_never().is_none());
            assert!(ldap
                .streaming_search("o=slow", Scope::Subtree, "(a=b)", vec!["x"])
                .now_or_never()
                .is_none());
        }
        let mut st = ldap
            .with_timeout(Duration::from_millis(20))
            .streaming_search("o=slow", Scope::Subtree, "(a=b)", vec!["x"])
            .await
            .unwrap();
        assert!(st.next().await.is_err());
        assert_eq!(st.state(), StreamState::Error);
        assert_eq!(st.finish().await.rc, 88);
        let x = ldap.extended(ldap3::exop::WhoAmI).await.unwrap();
        assert_eq!(x.1.text, "who");
        let ldap3::SearchResult(es, res) = ldap
            .with_timeout(Duration::from_secs(1))
            .search("", Scope::Base, "(a=b)", vec!["x"])
            .await
            .unwrap();
        assert_eq!(es.len(), 1);
        assert_eq!(res.text, "");
        // no timeout left on the handle
        assert!(ldap.timeout.is_none());
        if let Some(ids) = ids_in_use(&ldap) {
            assert!(ids.is_empty(), "ids after timeouts: {:?}", ids);
        }
    }
    ldap.unbind().await.unwrap();
    srv.await.unwrap();
}

// The scenario of 5079770 itself: the operations and their scrub requests are all queued
// before the driver runs, so the driver's select! takes them in either order.
#[tokio::test]
async fn c12_c13_caller_gone_before_the_driver_runs() {
    let (l, url) = listen().await;
    let (seen_tx, mut seen_rx) = tokio::sync::mpsc::unbounded_channel();
    let srv = tokio::spawn(async move {
        let (mut s, _) = l.accept().await.unwrap();
        let mut late: Vec<Vec<u8>> = vec![];
        while let Some(r) = read_req(&mut s).await {
            match r.op_tag {
                0x6e => late.push(envelope(r.id, result_op(0x6f, 6, "late"), None)),
                0x63 => {
                    late.push(envelope(r.id, entry_op("cn=late"), None));
                    late.push(envelope(r.id, result_op(0x65, 0, "late"), None));
                }
                0x77 => {
                    for m in late.drain(..) {
                        s.write_all(&m).await.unwrap();
                    }
                    s.write_all(&envelope(r.id, result_op(0x78, 0, "who"), None)).await.unwrap();
                }
                _ => (),
            }
            seen_tx.send((r.id, r.op_tag)).unwrap();
        }
    });
    let (conn, mut ldap) = LdapConnAsync::new(&url).await.unwrap();
    #[cfg(ldap3_verif)]
    let gauges = conn.verif_gauges();
    let mut handles = vec![];
    for i in 0..16 {
        let mut h = ldap.clone();
        if i % 2 == 0 {
            let r = h.with_timeout(Duration::from_millis(5)).compare("cn=x", "a", "b").await;
            assert!(r.is_err());
        } else {
            let r = h
                .with_timeout(Duration::from_millis(5))
                .streaming_search("", Scope::Subtree, "(a=b)", vec!["x"])
                .await;
            assert!(r.is_err());
        }
        handles.push(h);
    }
    ldap3::drive!(conn);
    for round in 0..2 {
        let x = timeout(Duration::from_secs(2), ldap.extended(ldap3::exop::WhoAmI))
            .await
            .expect("connection usable after timeouts")
            .unwrap();
        assert_eq!(x.1.text, "who", "round {}", round);
    }
    if let Some(ids) = ids_in_use(&ldap) {
        assert!(ids.is_empty(), "ids: {:?}", ids);
    }
    #[cfg(ldap3_verif)]
    {
        // one more turn of the driver so that the gauges are fresh
        let _ = ldap.extended(ldap3::exop::WhoAmI).await.unwrap();
        sleep(Duration::from_millis(20)).await;
        let g = gauges.lock().unwrap().clone();
        assert!(g.0.is_empty() && g.1.is_empty(), "routing state: {:?}", g);
    }
    let mut n = 0;
    while let Ok((_id, _tag)) = seen_rx.try_recv() {
        n += 1;
    }
    assert!(n >= 2);
    drop(handles);
    ldap.unbind().await.unwrap();
    srv.await.unwrap();
}

// ---------- adapted streams, both adapter orders (52c20d5 / e24fe6f siblings) ----------

fn paged_ctl(cookie: &[u8]) -> Vec<u8> {
    let mut v = tlv(0x02, &[0]);
    v.extend(tlv(0x04, cookie));
    let val = tlv(0x30, &v);
    let mut c = tlv(0x04, b"1.2.840.113556.1.4.319");
    c.extend(tlv(0x04, &val));
    tlv(0xa0, &tlv(0x30, &c))
}

#[tokio::test]
async fn c10_c16_adapted_streams_end_and_ids() {
    use ldap3::adapters::{Adapter, EntriesOnly, PagedResults};
    let (l, url) = listen().await;
    let srv = tokio::spawn(async move {
        let (mut s, _) = l.accept().await.unwrap();
        while let Some(r) = read_req(&mut s).await {
            if r.op_tag == 0x63 {
                let paged = contains(&r.raw, b"1.2.840.113556.1.4.319");
                let second = contains(&r.raw, b"COOKIE");
                let mut out = envelope(r.id, entry_op(if second { "cn=c" } else { "cn=a" }), None);
                out.extend(envelope(r.id, tlv(0x73, &tlv(0x04, b"ldap://x/")), None));
                out.extend(envelope(r.id, entry_op(if second { "cn=d" } else { "cn=b" }), None));
                let ctl = if paged {
                    Some(paged_ctl(if second { b"" } else { b"COOKIE" }))
                } else {
                    None
                };
                out.extend(envelope(r.id, result_op(0x65, 0, "fin"), ctl));
                s.write_all(&out).await.unwrap();
            }
        }
    });
    let (conn, mut ldap) = LdapConnAsync::new(&url).await.unwrap();
    ldap3::drive!(conn);
    for order in 0..3 {
        let adapters: Vec<Box<dyn Adapter<_, _>>> = match order {
            0 => vec![Box::new(EntriesOnly::new()), Box::new(PagedResults::new(2))],
            1 => vec![Box::new(PagedResults::new(2)), Box::new(EntriesOnly::new())],
            _ => vec![Box::new(PagedResults::new(2))],
        };
        let mut st = ldap
            .streaming_search_with(adapters, "", Scope::Subtree, "(a=b)", vec!["x"])
            .await
            .unwrap();
        let mut dns = vec![];
        while let Some(e) = st.next().await.unwrap() {
            if e.is_ref() {
                dns.push("ref".to_string());
            } else {
                dns.push(ldap3::SearchEntry::construct(e).dn);
            }
        }
        if order == 2 {
            assert_eq!(dns, vec!["cn=a", "ref", "cn=b", "cn=c", "ref", "cn=d"]);
        } else {
            assert_eq!(dns, vec!["cn=a", "cn=b", "cn=c", "cn=d"]);
        }
        assert_eq!(st.state(), StreamState::Done, "order {}", order);
        assert!(st.next().await.unwrap().is_none());
        if let Some(ids) = ids_in_use(&ldap) {
            assert!(ids.is_empty(), "ids: {:?}", ids);
        }
        let r = st.finish().await;
        assert_eq!(r.rc, 0);
        assert_eq!(r.text, "fin");
        assert!(r.ctrls.is_empty(), "paging control left in the result");
        if order != 2 {
            assert_eq!(r.refs.len(), 2);
        }
        assert_eq!(st.finish().await.rc, 80);
    }
    ldap.unbind().await.unwrap();
    srv.await.unwrap();
}

// a stream dropped without finish(), and an Abandon naming a search whose final message
// has already been routed
#[tokio::test]
async fn c13_dropped_stream_and_late_abandon() {
    let (l, url) = listen().await;
    let (go_tx, mut go_rx) = tokio::sync::mpsc::unbounded_channel::<()>();
    let srv = tokio::spawn(async move {
        let (mut s, _) = l.accept().await.unwrap();
        let mut pending = vec![];
        loop {
            tokio::select! {
                r = read_req(&mut s) => {
                    let r = match r { Some(r) => r, None => break };
                    match r.op_tag {
                        0x63 if contains(&r.raw, b"o=held") => {
                            s.write_all(&envelope(r.id, entry_op("cn=a"), None)).await.unwrap();
                            pending.push(envelope(r.id, entry_op("cn=b"), None));
                            pending.push(envelope(r.id, result_op(0x65, 0, ""), None));
                        }
                        0x63 => {
                            let mut out = envelope(r.id, entry_op("cn=a"), None);
                            out.extend(envelope(r.id, result_op(0x65, 0, "fin"), None));
                            s.write_all(&out).await.unwrap();
                        }
                        0x77 => s.write_all(&envelope(r.id, result_op(0x78, 0, "who"), None)).await.unwrap(),
                        _ => (),
                    }
                }
                _ = go_rx.recv() => {
                    for m in pending.drain(..) {
                        s.write_all(&m).await.unwrap();
                    }
                }
            }
        }
    });
    let (conn, mut ldap) = LdapConnAsync::new(&url).await.unwrap();
    ldap3::drive!(conn);
    // dropped without finish
    let mut st = ldap
        .streaming_search("o=held", Scope::Subtree, "(a=b)", vec!["x"])
        .await
        .unwrap();
    assert!(st.next().await.unwrap().is_some());
    drop(st);
    go_tx.send(()).unwrap();
    sleep(Duration::from_millis(50)).await;
    assert_eq!(ldap.extended(ldap3::exop::WhoAmI).await.unwrap().1.text, "who");
    if let Some(ids) = ids_in_use(&ldap) {
        assert!(ids.is_empty(), "ids after a dropped stream: {:?}", ids);
    }
    // Abandon after the final message has been routed but not read
    let mut st = ldap
        .streaming_search("o=quick", Scope::Subtree, "(a=b)", vec!["x"])
        .await
        .unwrap();
    assert_eq!(ldap.extended(ldap3::exop::WhoAmI).await.unwrap().1.text, "who");
    let id = st.ldap_handle().last_id();
    ldap.abandon(id).await.unwrap();
    assert!(st.next().await.unwrap().is_some());
    assert!(st.next().await.unwrap().is_none());
    assert_eq!(st.finish().await.text, "fin");
    if let Some(ids) = ids_in_use(&ldap) {
        assert!(ids.is_empty(), "ids: {:?}", ids);
    }
    ldap.unbind().await.unwrap();
    srv.await.unwrap();
}

// ---------- the synchronous wrapper ----------

#[test]
fn c14_sync_wrapper() {
    use ldap3::LdapConn;
    let rt = tokio::runtime::Builder::new_multi_thread().enable_all().worker_threads(1).build().unwrap();
    let (url_tx, url_rx) = std::sync::mpsc::channel();
    let srv = rt.spawn(async move {
        let (l, url) = listen().await;
        url_tx.send(url).unwrap();
        let (mut s, _) = l.accept().await.unwrap();
        let mut seen = vec![];
        while let Some(r) = read_req(&mut s).await {
            match r.op_tag {
                0x4a => s.write_all(&envelope(r.id, result_op(0x6b, 0, ""), None)).await.unwrap(),
                0x63 => {
                    let mut out = envelope(r.id, entry_op("cn=a"), None);
                    out.extend(envelope(r.id, result_op(0x65, 0, "fin"), None));
                    s.write_all(&out).await.unwrap();
                }
                _ => (),
            }
            seen.push(r);
        }
        seen
    });
    let url = url_rx.recv().unwrap();
    let mut conn = LdapConn::new(&url).unwrap();
    let ctrl = RawControl { ctype: "1.2.3.4.5".to_owned(), crit: false, val: None };
    assert!(conn
        .with_controls(ctrl.clone())
        .with_timeout(Duration::from_millis(10))
        .with_search_options(SearchOptions::new().sizelimit(9))
        .add("cn=x", vec![("cn", HashSet::<&str>::new())])
        .is_err());
    assert!(conn
        .with_controls(ctrl)
        .with_timeout(Duration::from_millis(10))
        .modify("cn=x", vec![Mod::Add("cn", HashSet::<&str>::new())])
        .is_err());
    conn.delete("cn=x").unwrap();
    {
        let mut st = conn.streaming_search("", Scope::Base, "(a=b)", vec!["x"]).unwrap();
        assert!(st.next().unwrap().is_some());
        assert!(st.next().unwrap().is_none());
        assert!(st.next().unwrap().is_none());
        assert_eq!(st.result().text, "fin");
    }
    conn.unbind().unwrap();
    assert!(conn.is_closed());
    assert!(conn.delete("cn=x").is_err());
    let seen = rt.block_on(srv).unwrap();
    assert_eq!(seen.iter().map(|r| r.op_tag).collect::<Vec<_>>(), vec![0x4a, 0x63, 0x42]);
    assert!(!contains(&seen[0].raw, b"1.2.3.4.5"));
    assert!(!contains(&seen[1].raw, b"1.2.3.4.5"));
}
