//! C06 - message framing must not depend on how the byte stream is segmented.
//!
//! Demonstration: on a connection protected by the GSSAPI (Kerberos) SASL security layer
//! (`Ldap::sasl_gssapi_bind()` on a cleartext connection, feature "gssapi"), the receive side
//! of `LdapCodec` (src/protocol.rs, `impl Decoder for LdapCodec`, gssapi variant of `decode`)
//! frames the stream differently depending on where the read boundaries fall:
//!
//!  1. `sasl_prefix_split_across_reads`: if a read ends 1-3 bytes into the 4-byte length
//!     prefix of a SASL buffer, `decode` returns Err("invalid SASL buffer") instead of waiting
//!     for more input; the connection is torn down and the well-formed response is lost.
//!
//!  2. `sasl_buffers_coalesced_in_one_read`: if a SASL buffer carries more than one LDAP
//!     message and the read which delivered it also delivered (part of) the following SASL
//!     buffer, every message of the first buffer but the first is silently discarded
//!     (`if res.is_ok() && !decoded.is_empty() && buf.is_empty()` keeps the rest only when
//!     nothing else has been read yet).
//!
//! In both tests the very same bytes are first delivered with a "friendly" segmentation, and
//! the client handles them correctly; only the segmentation differs in the failing half.
//!
//! No KDC is needed: a credential cache holding a service ticket for ldap/ldap.hunt.test@HUNT.TEST
//! and the matching keytab (both minted offline by hunt/forge.c with a random key, valid until
//! 2037) are written to a temp directory, and the in-process server accepts the context with
//! cross-krb5's `ServerCtx`.
//!
//! Run: CARGO_NET_OFFLINE=true cargo test --offline --features gssapi --test hunt_demo

#[cfg(not(feature = "gssapi"))]
#[test]
#[ignore = "the demonstration needs the GSSAPI security layer: run with --features gssapi"]
fn needs_feature_gssapi() {}

#[cfg(feature = "gssapi")]
mod demo {
    use std::io::{Read, Write};
    use std::net::{TcpListener, TcpStream};
    use std::sync::Once;
    use std::time::Duration;

    use cross_krb5::{AcceptFlags, K5Ctx, ServerCtx, Step};
    use lber::parse::parse_tag;
    use lber::structure::StructureTag;
    use ldap3::exop::{WhoAmI, WhoAmIResp};
    use ldap3::{Ldap, LdapConnAsync, Scope, SearchEntry};
    use tokio::time::timeout;

    const HANG_GUARD: Duration = Duration::from_secs(20);
    const GAP: Duration = Duration::from_millis(400);

    const CCACHE_HEX: &str = "0504000000000001000000010000000948554e542e544553540000000668756e74657200000001000000010000000948554e542e544553540000000668756e74657200000001000000020000000948554e542e54455354000000046c6461700000000e6c6461702e68756e742e746573740012000000202adaffba80221a04f4b19c638072f16eb6c451664d30872dcdf00c32834c89ac5e0be1005e0be1007fda1a4000000000000060000000000000000000000000010e6182010a30820106a003020105a10b1b0948554e542e54455354a221301fa003020101a11830161b046c6461701b0e6c6461702e68756e742e74657374a381ce3081cba003020112a281c30481c08d02b627d2eff07416839547dc439f806ef29a0fdde3a2e26535ee772fb1f60e114beedda27e3d875247b80c268e0ebef7e65383f9511f7dc3971dd11627478cdfbe1566393459b3cb92dcbd1d952d83c32749dbc178941a8eb1fd9b994499bd30c006ab0af8c4fd98d697bc5b259646dd4503c79f3640a34b5f0af0b435e10cdea97cfb4919a8bd64a1099e88192c98624a2e2b41170a964417d0d2bbe7f20061f6066559343fed89fc3d69214c2c00958b5aad316c6308c2b31531dd92564000000000";
    const KEYTAB_HEX: &str = "0502000000540002000948554e542e5445535400046c646170000e6c6461702e68756e742e74657374000000016ac000d90100120020d317e13d2e85b1e6aedf0e77431df8d39a704f9da6f8bdb3aee358ab1e8602ee00000001";
    const KRB5_CONF: &str = "[libdefaults]\n default_realm = HUNT.TEST\n dns_lookup_kdc = false\n dns_lookup_realm = false\n rdns = false\n dns_canonicalize_hostname = false\n[realms]\n HUNT.TEST = {\n  kdc = 127.0.0.1:1\n }\n";
    const SERVER_FQDN: &str = "ldap.hunt.test";
    const SERVER_SPN: &str = "ldap/ldap.hunt.test";

    fn unhex(s: &str) -> Vec<u8> {
        (0..s.len())
            .step_by(2)
            .map(|i| u8::from_str_radix(&s[i..i + 2], 16).unwrap())
            .collect()
    }

    /// Kerberos environment of the whole test process: config, credential cache, keytab.
    fn krb5_env() {
        static ONCE: Once = Once::new();
        ONCE.call_once(|| {
            let dir = std::env::temp_dir().join(format!("ldap3_hunt_c06_{}", std::process::id()));
            std::fs::create_dir_all(&dir).unwrap();
            std::fs::write(dir.join("krb5.conf"), KRB5_CONF).unwrap();
            std::fs::write(dir.join("cc"), unhex(CCACHE_HEX)).unwrap();
            std::fs::write(dir.join("kt"), unhex(KEYTAB_HEX)).unwrap();
            std::env::set_var("KRB5_CONFIG", dir.join("krb5.conf"));
            std::env::set_var("KRB5CCNAME", format!("FILE:{}", dir.join("cc").display()));
            std::env::set_var("KRB5_KTNAME", format!("FILE:{}", dir.join("kt").display()));
            std::env::set_var("KRB5RCACHENAME", "none:");
            std::env::set_var("KRB5RCACHETYPE", "none");
        });
    }

    // ---- minimal BER writer -------------------------------------------------------------

    fn tlv(tag: u8, content: &[u8]) -> Vec<u8> {
        let mut out = vec![tag];
        let len = content.len();
        if len < 128 {
            out.push(len as u8);
        } else if len < 256 {
            out.extend([0x81, len as u8]);
        } else {
            out.extend([0x82, (len >> 8) as u8, len as u8]);
        }
        out.extend_from_slice(content);
        out
    }

    fn ldap_message(id: i32, protoop: Vec<u8>) -> Vec<u8> {
        assert!((0..128).contains(&id));
        let mut body = tlv(0x02, &[id as u8]);
        body.extend(protoop);
        tlv(0x30, &body)
    }

    fn ldap_result(rc: u8) -> Vec<u8> {
        let mut r = tlv(0x0a, &[rc]);
        r.extend(tlv(0x04, b""));
        r.extend(tlv(0x04, b""));
        r
    }

    fn bind_response(id: i32, rc: u8, server_creds: Option<&[u8]>) -> Vec<u8> {
        let mut r = ldap_result(rc);
        if let Some(c) = server_creds {
            r.extend(tlv(0x87, c));
        }
        ldap_message(id, tlv(0x61, &r))
    }

    fn whoami_response(id: i32, authzid: &str) -> Vec<u8> {
        let mut r = ldap_result(0);
        r.extend(tlv(0x8b, authzid.as_bytes()));
        ldap_message(id, tlv(0x78, &r))
    }

    fn search_entry(id: i32, dn: &str) -> Vec<u8> {
        let mut e = tlv(0x04, dn.as_bytes());
        e.extend(tlv(0x30, b""));
        ldap_message(id, tlv(0x64, &e))
    }

    fn search_done(id: i32) -> Vec<u8> {
        ldap_message(id, tlv(0x65, &ldap_result(0)))
    }

    // ---- server side ---------------------------------------------------------------------

    /// Read one complete BER element from the socket.
    fn read_ber(s: &mut TcpStream) -> std::io::Result<Vec<u8>> {
        let mut raw = vec![0u8; 2];
        s.read_exact(&mut raw)?;
        let len = if raw[1] < 128 {
            raw[1] as usize
        } else {
            let n = (raw[1] - 128) as usize;
            let mut lb = vec![0u8; n];
            s.read_exact(&mut lb)?;
            raw.extend_from_slice(&lb);
            lb.iter().fold(0usize, |a, &b| (a << 8) | b as usize)
        };
        let mut content = vec![0u8; len];
        s.read_exact(&mut content)?;
        raw.extend(content);
        Ok(raw)
    }

    /// (message id, protocol op) of an LDAPMessage.
    fn split_message(raw: &[u8]) -> (i32, StructureTag) {
        let (_, tag) = parse_tag(raw).expect("request parses");
        let mut parts = tag.expect_constructed().expect("LDAPMessage sequence");
        let id = parts.remove(0).expect_primitive().expect("message id");
        let id = id.iter().fold(0i32, |a, &b| (a << 8) | b as i32);
        (id, parts.remove(0))
    }

    /// SASL credentials of a BindRequest, if any.
    fn bind_creds(protoop: StructureTag) -> Option<Vec<u8>> {
        assert_eq!(protoop.id, 0, "expected a BindRequest");
        let mut parts = protoop.expect_constructed().expect("BindRequest");
        let auth = parts.remove(2);
        assert_eq!(auth.id, 3, "expected SASL authentication");
        let mut sasl = auth.expect_constructed().expect("SaslCredentials");
        if sasl.len() > 1 {
            sasl.remove(1).expect_primitive()
        } else {
            None
        }
    }

    /// The three-leg SASL GSSAPI bind (RFC 4752), server side. Returns the established context.
    fn accept_gssapi_bind(s: &mut TcpStream) -> ServerCtx {
        // Leg 1: AP-REQ in, AP-REP out (the client asks for mutual authentication).
        let (id, op) = split_message(&read_ber(s).unwrap());
        let token = bind_creds(op).expect("initial GSSAPI token");
        let pending = ServerCtx::new(AcceptFlags::empty(), Some(SERVER_SPN))
            .expect("server credentials from the keytab");
        let (mut ctx, reply) = match pending.step(&token).expect("accept_sec_context") {
            Step::Finished((ctx, reply)) => (ctx, reply.map(|r| r.to_vec())),
            Step::Continue(_) => panic!("unexpected extra GSSAPI round"),
        };
        s.write_all(&bind_response(id, 14, Some(reply.as_deref().unwrap_or(b""))))
            .unwrap();
        // Leg 2: empty response in, security layer offer out: all layers, max. buffer 0xFFFFFF.
        let (id, op) = split_message(&read_ber(s).unwrap());
        assert!(bind_creds(op).is_none());
        let offer = ctx.wrap(false, &[0x07, 0xFF, 0xFF, 0xFF]).unwrap().to_vec();
        s.write_all(&bind_response(id, 14, Some(&offer))).unwrap();
        // Leg 3: the client's choice in, success out. From here on everything is wrapped.
        let (id, op) = split_message(&read_ber(s).unwrap());
        let choice = ctx.unwrap(&bind_creds(op).expect("layer choice")).unwrap().to_vec();
        assert_eq!(choice[0], 4, "the client should have chosen the privacy layer");
        s.write_all(&bind_response(id, 0, None)).unwrap();
        ctx
    }

    /// One SASL buffer: 4-byte length, then the wrapped (sealed) payload.
    fn sasl_buffer(ctx: &mut ServerCtx, payload: &[u8]) -> Vec<u8> {
        let wrapped = ctx.wrap(true, payload).unwrap();
        let mut out = (wrapped.len() as u32).to_be_bytes().to_vec();
        out.extend_from_slice(&wrapped);
        out
    }

    fn read_sasl_request(s: &mut TcpStream, ctx: &mut ServerCtx) -> std::io::Result<(i32, StructureTag)> {
        let mut len = [0u8; 4];
        s.read_exact(&mut len)?;
        let mut wrapped = vec![0u8; u32::from_be_bytes(len) as usize];
        s.read_exact(&mut wrapped)?;
        let plain = ctx.unwrap(&wrapped).unwrap().to_vec();
        Ok(split_message(&plain))
    }

    #[derive(Clone, Copy)]
    enum Script {
        /// Two WhoAmI exchanges; the second response is split two bytes into the SASL length.
        PrefixSplit,
        /// Two Searches, each answered by the SASL buffers {entry1, entry2} {entry3, done};
        /// the first time with a pause between the buffers, the second time in one write.
        Coalesced,
    }

    fn serve(listener: TcpListener, script: Script) {
        let (mut s, _) = listener.accept().unwrap();
        s.set_nodelay(true).unwrap();
        let mut ctx = accept_gssapi_bind(&mut s);
        match script {
            Script::PrefixSplit => {
                let (id, op) = read_sasl_request(&mut s, &mut ctx).unwrap();
                assert_eq!(op.id, 23);
                let whole = sasl_buffer(&mut ctx, &whoami_response(id, "dn:cn=hunter"));
                s.write_all(&whole).unwrap();

                let (id, op) = read_sasl_request(&mut s, &mut ctx).unwrap();
                assert_eq!(op.id, 23);
                let split = sasl_buffer(&mut ctx, &whoami_response(id, "dn:cn=hunter"));
                s.write_all(&split[..2]).unwrap();
                s.flush().unwrap();
                std::thread::sleep(GAP);
                // The client may have hung up by now; that is what the test reports.
                let _ = s.write_all(&split[2..]);
            }
            Script::Coalesced => {
                for coalesce in [false, true] {
                    let (id, op) = read_sasl_request(&mut s, &mut ctx).unwrap();
                    assert_eq!(op.id, 3);
                    let mut first = search_entry(id, "cn=entry1,dc=hunt");
                    first.extend(search_entry(id, "cn=entry2,dc=hunt"));
                    let mut second = search_entry(id, "cn=entry3,dc=hunt");
                    second.extend(search_done(id));
                    let first = sasl_buffer(&mut ctx, &first);
                    let second = sasl_buffer(&mut ctx, &second);
                    if coalesce {
                        let mut both = first;
                        both.extend(second);
                        s.write_all(&both).unwrap();
                    } else {
                        s.write_all(&first).unwrap();
                        s.flush().unwrap();
                        std::thread::sleep(GAP);
                        s.write_all(&second).unwrap();
                    }
                }
            }
        }
        // Keep the connection open until the client goes away.
        let mut sink = [0u8; 256];
        while matches!(s.read(&mut sink), Ok(n) if n > 0) {}
    }

    // ---- client side ---------------------------------------------------------------------

    async fn connect_and_bind(script: Script) -> Ldap {
        krb5_env();
        let listener = TcpListener::bind("127.0.0.1:0").unwrap();
        let port = listener.local_addr().unwrap().port();
        std::thread::spawn(move || serve(listener, script));
        let (conn, mut ldap) = LdapConnAsync::new(&format!("ldap://127.0.0.1:{}", port))
            .await
            .expect("connect");
        ldap3::drive!(conn);
        let res = timeout(HANG_GUARD, ldap.sasl_gssapi_bind(SERVER_FQDN))
            .await
            .expect("hang guard: GSSAPI bind")
            .expect("GSSAPI bind (test set-up)");
        assert_eq!(res.rc, 0, "GSSAPI bind (test set-up): {:?}", res);
        ldap
    }

    async fn search_dns(ldap: &mut Ldap) -> (Vec<String>, u32) {
        let mut stream = timeout(
            HANG_GUARD,
            ldap.streaming_search("dc=hunt", Scope::Subtree, "(objectClass=*)", vec!["cn"]),
        )
        .await
        .expect("hang guard: search start")
        .expect("search start");
        let mut dns = vec![];
        loop {
            match timeout(HANG_GUARD, stream.next()).await {
                Err(_) => panic!(
                    "C06: the search never ended (hang guard) - entries delivered so far: {:?}",
                    dns
                ),
                Ok(Err(e)) => panic!(
                    "C06: the search failed with \"{}\" although the server sent only well-formed \
                     messages - entries delivered so far: {:?}",
                    e, dns
                ),
                Ok(Ok(None)) => break,
                Ok(Ok(Some(re))) => dns.push(SearchEntry::construct(re).dn),
            }
        }
        let res = stream.finish().await;
        (dns, res.rc)
    }

    #[tokio::test(flavor = "multi_thread", worker_threads = 2)]
    async fn sasl_prefix_split_across_reads() {
        let mut ldap = connect_and_bind(Script::PrefixSplit).await;

        // Control: the response arrives in a single segment.
        let (exop, res) = timeout(HANG_GUARD, ldap.extended(WhoAmI))
            .await
            .expect("hang guard: first WhoAmI")
            .expect("first WhoAmI (response in one segment)")
            .success()
            .expect("first WhoAmI result");
        assert_eq!(res.rc, 0);
        let first: WhoAmIResp = exop.parse();
        assert_eq!(first.authzid, "dn:cn=hunter");

        // The same response, but the first read ends two bytes into the SASL length prefix.
        let second = timeout(HANG_GUARD, ldap.extended(WhoAmI))
            .await
            .expect("hang guard: second WhoAmI");
        match second {
            Ok(er) => {
                let (exop, _) = er.success().expect("second WhoAmI result");
                let second: WhoAmIResp = exop.parse();
                assert_eq!(second.authzid, "dn:cn=hunter");
            }
            Err(e) => panic!(
                "C06 violated: framing must not depend on how the byte stream is split across \
                 reads. The same WhoAmI response was delivered when it arrived in one segment, \
                 but when the first segment ended 2 bytes into the 4-byte SASL buffer length the \
                 operation failed with \"{}\" (connection closed by the client: {})",
                e,
                ldap.is_closed()
            ),
        }
    }

    #[tokio::test(flavor = "multi_thread", worker_threads = 2)]
    async fn sasl_buffers_coalesced_in_one_read() {
        let mut ldap = connect_and_bind(Script::Coalesced).await;
        let expected: Vec<String> = ["cn=entry1,dc=hunt", "cn=entry2,dc=hunt", "cn=entry3,dc=hunt"]
            .iter()
            .map(|s| s.to_string())
            .collect();

        // Control: the two SASL buffers arrive in separate reads.
        let (dns, rc) = search_dns(&mut ldap).await;
        assert_eq!(
            (dns, rc),
            (expected.clone(), 0),
            "control run (SASL buffers in separate segments)"
        );

        // The same messages in the same SASL buffers, but both buffers arrive in one read.
        let (dns, rc) = search_dns(&mut ldap).await;
        assert_eq!(
            (dns.clone(), rc),
            (expected.clone(), 0),
            "C06 violated: the client must deliver the same messages in the same order however \
             the bytes are split across reads. Server sent entry1+entry2 in one SASL buffer and \
             entry3+done in the next; with a pause between the buffers the client delivered {:?}, \
             with both buffers in one TCP segment it delivered {:?} (rc={})",
            expected,
            dns,
            rc
        );
    }
}
