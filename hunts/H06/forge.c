/*
 * Offline helper (NOT needed to run the demonstration): prints a Kerberos credential
 * cache and a keytab for a throw-away realm, so that a GSSAPI security context can be
 * established between the ldap3 client and an in-process test server without a KDC.
 * The service ticket is minted here with a random service key; the same key goes into
 * the keytab. The two files are embedded as hex strings in hunt_demo.rs.
 *
 *   gcc -o forge forge.c -lkrb5 -lk5crypto && ./forge cc.bin kt.bin
 */
#include <krb5.h>
#include <stdio.h>
#include <stdlib.h>
#include <string.h>

krb5_error_code krb5_encrypt_tkt_part(krb5_context, const krb5_keyblock *, krb5_ticket *);
krb5_error_code encode_krb5_ticket(const krb5_ticket *, krb5_data **);

static krb5_context ctx;
#define CK(x)                                                                  \
    do {                                                                       \
        krb5_error_code r_ = (x);                                              \
        if (r_) {                                                              \
            fprintf(stderr, "%s: %s\n", #x, krb5_get_error_message(ctx, r_));  \
            exit(1);                                                           \
        }                                                                      \
    } while (0)

int main(int argc, char **argv)
{
    char name[600];
    krb5_principal client, server;
    krb5_keyblock skey, sess;
    krb5_keytab kt;
    krb5_keytab_entry e;
    krb5_enc_tkt_part enc;
    krb5_ticket tkt;
    krb5_data *tdata;
    krb5_creds c;
    krb5_ccache cc;

    if (argc != 3)
        return 2;
    CK(krb5_init_context(&ctx));
    CK(krb5_parse_name(ctx, "hunter@HUNT.TEST", &client));
    CK(krb5_parse_name(ctx, "ldap/ldap.hunt.test@HUNT.TEST", &server));
    CK(krb5_c_make_random_key(ctx, ENCTYPE_AES256_CTS_HMAC_SHA1_96, &skey));
    CK(krb5_c_make_random_key(ctx, ENCTYPE_AES256_CTS_HMAC_SHA1_96, &sess));

    snprintf(name, sizeof name, "WRFILE:%s", argv[2]);
    CK(krb5_kt_resolve(ctx, name, &kt));
    memset(&e, 0, sizeof e);
    e.principal = server;
    e.vno = 1;
    e.key = skey;
    e.timestamp = 1577836800;
    CK(krb5_kt_add_entry(ctx, kt, &e));
    CK(krb5_kt_close(ctx, kt));

    memset(&enc, 0, sizeof enc);
    enc.flags = TKT_FLG_INITIAL | TKT_FLG_PRE_AUTH;
    enc.session = &sess;
    enc.client = client;
    enc.transited.tr_type = KRB5_DOMAIN_X500_COMPRESS;
    enc.transited.tr_contents.data = "";
    enc.transited.tr_contents.length = 0;
    enc.times.authtime = 1577836800;  /* 2020-01-01 */
    enc.times.starttime = 1577836800;
    enc.times.endtime = 2145000000;   /* 2037-12-21 */
    enc.times.renew_till = 0;
    memset(&tkt, 0, sizeof tkt);
    tkt.server = server;
    tkt.enc_part2 = &enc;
    tkt.enc_part.kvno = 1;
    CK(krb5_encrypt_tkt_part(ctx, &skey, &tkt));
    CK(encode_krb5_ticket(&tkt, &tdata));

    memset(&c, 0, sizeof c);
    c.client = client;
    c.server = server;
    c.keyblock = sess;
    c.times = enc.times;
    c.ticket_flags = enc.flags;
    c.ticket = *tdata;
    snprintf(name, sizeof name, "FILE:%s", argv[1]);
    CK(krb5_cc_resolve(ctx, name, &cc));
    CK(krb5_cc_initialize(ctx, cc, client));
    CK(krb5_cc_store_cred(ctx, cc, &c));
    CK(krb5_cc_close(ctx, cc));
    return 0;
}
