use ldap3::{get_url_params, LdapUrlExt, Scope};
use url::Url;

fn enc_all(s: &str) -> String {
    let mut o = String::new();
    for &b in s.as_bytes() {
        if b.is_ascii_alphanumeric() || b == b'-' || b == b'.' || b == b'_' || b == b'~' {
            o.push(b as char);
        } else {
            o.push_str(&format!("%{:02X}", b));
        }
    }
    o
}

fn show(u: &str) {
    match Url::parse(u) {
        Ok(url) => {
            println!("URL {} => path={:?} query={:?}", u, url.path(), url.query());
            match get_url_params(&url) {
                Ok(p) => println!(
                    "   base={:?} attrs={:?} scope={:?} filter={:?} ext={:?}",
                    p.base, p.attrs, p.scope, p.filter, p.extensions
                ),
                Err(e) => println!("   ERR {:?}", e),
            }
        }
        Err(e) => println!("URL {} => parse error {:?}", u, e),
    }
}

#[test]
fn explore() {
    show("ldap://h/o=x?userCertificate%3Bbinary,c%6E?sub?(cn=*)");
    show("ldap://h/o=x??SUB");
    show("ldap://h/o=x??Base");
    show("ldap://h/o=x??%73ub");
    show("ldap://h/cn=a/../b,o=x");
    show("ldap://h/cn=a%2F..%2Fb,o=x");
    show("ldap://h/cn=a/%2e%2e/b,o=x");
    show("ldap://h/..");
    show("ldap:///o=x????!BINDNAME=cn=a%2Co=x,X-BindPW=a%3Db,foo=bar");
    show("ldap:///o=x????%21foo=bar");
    show("ldap:///o=x????!1.3.6.1.4.1.1466.20037");
    show("ldap:///o=x????x%2Dbindpw=secret");
    show("ldap:///o=x????bindname=a,!foo");
    show("ldap:///o=x????bindname=%FF");
    show("ldap:///o=x????foo=%FF");
    show("ldap:///o=x??sub?(cn=a%3Fb)?bindname=a?b");
    show("ldap:///o=x?cn");
    show("ldap:///?cn");
    show("ldap://h?cn");
    show("ldap://h");
    show("ldap:///%20o=x%23%25??one?(cn=%25%23%20)");
    show(&format!(
        "ldap://h/{}?{}?{}?{}?{}={}",
        enc_all("cn=Ünï ?,=%# ,o=x"),
        "cn,sn",
        "one",
        enc_all("(cn=Ünï ?,=%# )"),
        "bindname",
        enc_all("cn=a,o=?x")
    ));
    show("ldap:///o=x?cn;lang-de,1.1,+,*??");
    show("ldap:///o=x?cn'a??(cn='a')");
    show("ldaps://[::1]:636/o=x??base");
    show("ldapi://%2ftmp%2fldapi/o=x??base");
    show("ldap:o=x??base");
    show("ldap:///o=x\t,o=y??b\nase");
    let _ = (LdapUrlExt::StartTLS, Scope::Base);
}
