//! C20 - LDAP URL parameters are extracted as RFC 4516 defines them.
//!
//! Finding: `get_url_params` percent-decodes the base DN, the filter and the
//! extension values, but hands the attribute list back exactly as it stands in
//! the URL. RFC 4516 section 2.1 applies the percent-encoding mechanism of
//! RFC 3986 to the whole URL (the `attrs` production included), and RFC 3986
//! section 2.2 says that a reserved character with no delimiting role in a
//! component (here: ';' in `userCertificate;binary`, `cn;lang-de`) means the
//! same whether it is written literally or as `%3B`. A URL written by any
//! component-wise encoder (JavaScript encodeURIComponent, Python
//! urllib.parse.quote, java.net.URLEncoder all turn ';' into "%3B") therefore
//! comes back with the attribute selector "userCertificate%3Bbinary", which is
//! not the attribute that was formatted into the URL; handed to search() as
//! it is meant to be (see examples/search_url_params_sync.rs) it asks the
//! server for an attribute which doesn't exist.
//!
//! Run with:
//!   cd /tmp/wt-H20 && CARGO_NET_OFFLINE=true cargo test --offline --test hunt_demo

use ldap3::{get_url_params, LdapUrlExt, Scope};
use url::Url;

/// Percent-encode every octet which is not in the RFC 3986 `unreserved` set.
/// This is the conservative component encoder: always legal for the value of a
/// URL component, whatever delimiters the enclosing syntax uses.
fn enc_component(s: &str) -> String {
    let mut out = String::new();
    for &b in s.as_bytes() {
        if b.is_ascii_alphanumeric() || matches!(b, b'-' | b'.' | b'_' | b'~') {
            out.push(b as char);
        } else {
            out.push_str(&format!("%{:02X}", b));
        }
    }
    out
}

/// Percent-encode only what RFC 4516 section 2.1 says MUST be encoded: octets
/// outside reserved/unreserved, '?' everywhere, and (with `comma`) the comma
/// inside an extension value. '%' and '#' must be encoded as well to survive
/// as data.
fn enc_minimal(s: &str, comma: bool) -> String {
    let mut out = String::new();
    for &b in s.as_bytes() {
        let reserved = b":/?#[]@!$&'()*+,;=".contains(&b);
        let unreserved = b.is_ascii_alphanumeric() || matches!(b, b'-' | b'.' | b'_' | b'~');
        let must = !(reserved || unreserved) || b == b'?' || b == b'#' || (comma && b == b',');
        if must {
            out.push_str(&format!("%{:02X}", b));
        } else {
            out.push(b as char);
        }
    }
    out
}

fn scope_word(s: Scope) -> &'static str {
    match s {
        Scope::Base => "base",
        Scope::OneLevel => "one",
        Scope::Subtree => "sub",
    }
}

/// ldap://host/dn?attrs?scope?filter?extensions, the commas between attribute
/// selectors and between extensions being the syntax's own delimiters.
fn format_url(
    enc: &dyn Fn(&str, bool) -> String,
    base: &str,
    attrs: &[&str],
    scope: Scope,
    filter: &str,
    exts: &[(&str, &str)],
) -> String {
    let attrs = attrs
        .iter()
        .map(|a| enc(a, false))
        .collect::<Vec<_>>()
        .join(",");
    let exts = exts
        .iter()
        .map(|(t, v)| format!("{}={}", t, enc(v, true)))
        .collect::<Vec<_>>()
        .join(",");
    format!(
        "ldap://ldap.example.com/{}?{}?{}?{}?{}",
        enc(base, false),
        attrs,
        scope_word(scope),
        enc(filter, false),
        exts
    )
}

const BASE: &str = "ou=R&D ?,o=Ünï #1%";
const ATTRS: [&str; 3] = ["cn", "userCertificate;binary", "description;lang-de"];
const FILTER: &str = "(&(cn=J?n #1, 100% =)(ou=Ünï))";
const BINDNAME: &str = "cn=Manager, ?,o=x";

fn check_roundtrip(how: &str, url_text: &str) {
    let url = Url::parse(url_text).expect("URL parses");
    let params = get_url_params(&url).expect("a well-formed RFC 4516 URL yields its parameters");
    assert_eq!(
        params.base, BASE,
        "[{}] C20 demands the base DN formatted into {} to come back unchanged",
        how, url_text
    );
    assert_eq!(
        params.scope,
        Scope::OneLevel,
        "[{}] C20 demands the scope formatted into {} to come back unchanged",
        how,
        url_text
    );
    assert_eq!(
        params.filter, FILTER,
        "[{}] C20 demands the filter formatted into {} to come back unchanged",
        how, url_text
    );
    match params.extensions.get(&LdapUrlExt::Bindname("".into())) {
        Some(LdapUrlExt::Bindname(v)) => assert_eq!(
            v, BINDNAME,
            "[{}] C20 demands the bindname extension value to come back unchanged",
            how
        ),
        other => panic!("[{}] bindname extension missing: {:?}", how, other),
    }
    assert_eq!(
        params.attrs,
        ATTRS.to_vec(),
        "[{}] C20 demands that the attribute list formatted into the RFC 4516 URL {} with \
         percent-encoding comes back as the same components {:?}; instead get_url_params \
         returned {:?} (the attribute selectors are the only component left percent-encoded)",
        how,
        url_text,
        ATTRS,
        params.attrs
    );
}

/// Control: the formatter and the expectations are sound - with the minimal
/// encoding (';' left literal) every component comes back. Passes.
#[test]
fn control_minimal_encoding_roundtrips() {
    let url_text = format_url(
        &enc_minimal,
        BASE,
        &ATTRS,
        Scope::OneLevel,
        FILTER,
        &[("bindname", BINDNAME), ("x-unknown", "ignored")],
    );
    check_roundtrip("minimal encoder", &url_text);
}

/// The same components, formatted by the conservative component encoder
/// (everything but `unreserved` percent-encoded, as encodeURIComponent / quote
/// / URLEncoder do). Base, scope, filter and extension come back; the
/// attribute list doesn't. FAILS on the unchanged source.
#[test]
fn c20_conservative_encoding_roundtrips() {
    let enc = |s: &str, _comma: bool| enc_component(s);
    let url_text = format_url(
        &enc,
        BASE,
        &ATTRS,
        Scope::OneLevel,
        FILTER,
        &[("bindname", BINDNAME), ("x-unknown", "ignored")],
    );
    check_roundtrip("component encoder", &url_text);
}

/// The smallest instance, written out. FAILS on the unchanged source.
#[test]
fn c20_attribute_selector_is_percent_decoded() {
    let url = Url::parse("ldap://ldap.example.com/o=x?userCertificate%3Bbinary,c%6E?base").unwrap();
    let params = get_url_params(&url).unwrap();
    assert_eq!(params.base, "o=x");
    assert_eq!(params.scope, Scope::Base);
    assert_eq!(params.filter, "(objectClass=*)");
    assert_eq!(
        params.attrs,
        vec!["userCertificate;binary", "cn"],
        "C20 / RFC 4516 2.1: percent-encoding applies to the attribute selectors as to every \
         other part of the URL, so ?userCertificate%3Bbinary,c%6E? selects the attributes \
         userCertificate;binary and cn; get_url_params returned {:?}",
        params.attrs
    );
}

/// Secondary observation, not the main finding (ignored so that the demo's
/// verdict depends on one cause only; run with `-- --ignored`): the ABNF of
/// RFC 4516 defines scope = "base" / "one" / "sub", and ABNF literal strings
/// are case-insensitive (RFC 4234 2.3), so "SUB" and "Base" are valid scope
/// words (OpenLDAP's ldap_url_parse compares them with strcasecmp).
/// get_url_params returns InvalidScopeString for them.
#[test]
#[ignore]
fn secondary_scope_word_is_case_insensitive() {
    for (word, want) in [("SUB", Scope::Subtree), ("Base", Scope::Base), ("ONE", Scope::OneLevel)] {
        let url = Url::parse(&format!("ldap:///o=x??{}", word)).unwrap();
        match get_url_params(&url) {
            Ok(p) => assert_eq!(p.scope, want),
            Err(e) => panic!(
                "RFC 4516 scope words are ABNF literals, hence case-insensitive: {:?} is a valid \
                 scope meaning {:?}, but get_url_params failed with {:?}",
                word, want, e
            ),
        }
    }
}
