//! Hunt for a violation of property C05:
//!
//!   In-flight operations never share a message ID; IDs stay within 1..2^31-1.
//!
//! Nothing was found. These are the tests for the hypotheses which were tried; they all
//! PASS on the unchanged source. Every test talks to a scripted in-process LDAP server
//! which decodes the message ID of every request that leaves the client, and keeps the
//! set of IDs which are outstanding FROM THE SERVER'S POINT OF VIEW: an ID enters the set
//! when a request carrying it arrives, and leaves it only when the server has sent the
//! final response for it, or when the client has sent an Abandon for it. That is stricter
//! than the client's own view (an operation the client has timed out, or a search it has
//! finish()ed early, stays "outstanding" here), so a pass under this bookkeeping is a pass
//! under the property text.

use std::collections::HashSet;
use std::sync::{Arc, Mutex};
use std::time::Duration;

use ldap3::adapters::{Adapter, EntriesOnly, PagedResults};
use ldap3::exop::WhoAmI;
use ldap3::{Ldap, LdapConn, LdapConnAsync, LdapError, Scope, SearchEntry};

use tokio::io::{AsyncReadExt, AsyncWriteExt};
use tokio::net::tcp::OwnedWriteHalf;
use tokio::net::TcpListener;
use tokio::sync::mpsc;

const GUARD: Duration = Duration::from_secs(30);

// ---------------------------------------------------------------------------------------
// BER helpers
// ---------------------------------------------------------------------------------------

fn enc_len(len: usize, out: &mut Vec<u8>) {
    if len < 128 {
        out.push(len as u8);
    } else {
        let bytes = len.to_be_bytes();
        let skip = bytes.iter().take_while(|b| **b == 0).count();
        out.push(0x80 | (bytes.len() - skip) as u8);
        out.extend(&bytes[skip..]);
    }
}

fn tlv(tag: u8, content: &[u8]) -> Vec<u8> {
    let mut out = vec![tag];
    enc_len(content.len(), &mut out);
    out.extend(content);
    out
}

fn enc_int(v: i64) -> Vec<u8> {
    let repr = v.to_be_bytes();
    let mut start = 0;
    while start < 7
        && ((repr[start] == 0 && repr[start + 1] < 0x80)
            || (repr[start] == 0xff && repr[start + 1] >= 0x80))
    {
        start += 1;
    }
    tlv(0x02, &repr[start..])
}

/// LDAPMessage with the given id, protocol op, and optional controls element.
fn ldap_msg(id: i64, op: Vec<u8>, controls: Option<Vec<u8>>) -> Vec<u8> {
    let mut content = enc_int(id);
    content.extend(op);
    if let Some(c) = controls {
        content.extend(c);
    }
    tlv(0x30, &content)
}

/// A response consisting of a successful LDAPResult under the application tag `tag`.
fn result_msg(id: i64, tag: u8) -> Vec<u8> {
    ldap_msg(
        id,
        tlv(tag, &[0x0a, 0x01, 0x00, 0x04, 0x00, 0x04, 0x00]),
        None,
    )
}

fn entry_msg(id: i64, dn: &str) -> Vec<u8> {
    let mut content = tlv(0x04, dn.as_bytes());
    content.extend(tlv(0x30, &[]));
    ldap_msg(id, tlv(0x64, &content), None)
}

/// SearchResultDone, optionally carrying a Paged Results control with the given cookie.
fn done_msg(id: i64, cookie: Option<&[u8]>) -> Vec<u8> {
    let controls = cookie.map(|cookie| {
        let mut val = enc_int(0);
        val.extend(tlv(0x04, cookie));
        let val = tlv(0x30, &val);
        let mut ctrl = tlv(0x04, b"1.2.840.113556.1.4.319");
        ctrl.extend(tlv(0x04, &val));
        tlv(0xa0, &tlv(0x30, &ctrl))
    });
    ldap_msg(
        id,
        tlv(0x65, &[0x0a, 0x01, 0x00, 0x04, 0x00, 0x04, 0x00]),
        controls,
    )
}

/// The response tag which goes with a request tag.
fn resp_tag(req_tag: u8) -> u8 {
    match req_tag {
        0x60 => 0x61, // Bind
        0x63 => 0x65, // Search -> SearchResultDone
        0x66 => 0x67, // Modify
        0x68 => 0x69, // Add
        0x4a => 0x6b, // Delete
        0x6c => 0x6d, // ModifyDN
        0x6e => 0x6f, // Compare
        0x77 => 0x78, // Extended
        t => panic!("no response for request tag {:#x}", t),
    }
}

fn read_len(buf: &[u8], pos: &mut usize) -> Option<usize> {
    let b = *buf.get(*pos)?;
    *pos += 1;
    if b < 0x80 {
        return Some(b as usize);
    }
    let n = (b & 0x7f) as usize;
    let mut len = 0usize;
    for _ in 0..n {
        len = (len << 8) | *buf.get(*pos)? as usize;
        *pos += 1;
    }
    Some(len)
}

fn read_int(buf: &[u8], pos: &mut usize) -> i64 {
    let len = read_len(buf, pos).expect("integer length");
    assert!((1..=8).contains(&len), "integer of {} octets", len);
    let mut v: i64 = if buf[*pos] & 0x80 != 0 { -1 } else { 0 };
    for _ in 0..len {
        v = (v << 8) | buf[*pos] as i64;
        *pos += 1;
    }
    v
}

#[derive(Clone, Debug)]
struct Req {
    id: i64,
    op: u8,
    /// The target of an Abandon.
    target: Option<i64>,
}

/// Split one complete LDAPMessage off the front of `buf`, if there is one.
fn take_frame(buf: &mut Vec<u8>) -> Option<Req> {
    if buf.is_empty() {
        return None;
    }
    assert_eq!(buf[0], 0x30, "request is not a SEQUENCE");
    let mut pos = 1;
    let len = read_len(buf, &mut pos)?;
    if buf.len() < pos + len {
        return None;
    }
    let total = pos + len;
    assert_eq!(buf[pos], 0x02, "message ID is not an INTEGER");
    pos += 1;
    let id = read_int(buf, &mut pos);
    let op = buf[pos];
    let target = if op == 0x50 {
        pos += 1;
        Some(read_int(buf, &mut pos))
    } else {
        None
    };
    buf.drain(..total);
    Some(Req { id, op, target })
}

// ---------------------------------------------------------------------------------------
// The bookkeeping of the property on the wire
// ---------------------------------------------------------------------------------------

#[derive(Default, Debug)]
struct Wire {
    seen: Vec<Req>,
    outstanding: HashSet<i64>,
    violations: Vec<String>,
}

impl Wire {
    fn arrived(&mut self, req: &Req) {
        if req.id < 1 || req.id > i32::MAX as i64 {
            self.violations.push(format!(
                "C05 demands a message ID within 1..=2147483647, but request #{} (op {:#x}) left \
                 the client with ID {}",
                self.seen.len(),
                req.op,
                req.id
            ));
        }
        if self.outstanding.contains(&req.id) {
            self.violations.push(format!(
                "C05 demands that a request's message ID differs from the ID of every operation \
                 still outstanding, but request #{} (op {:#x}) left the client with ID {} while \
                 an earlier operation with that ID was still unanswered (outstanding: {:?})",
                self.seen.len(),
                req.op,
                req.id,
                self.outstanding
            ));
        }
        match req.op {
            // Abandon: no response; its target is over as far as the server is concerned
            0x50 => {
                if let Some(t) = req.target {
                    self.outstanding.remove(&t);
                }
            }
            // Unbind: no response
            0x42 => (),
            _ => {
                self.outstanding.insert(req.id);
            }
        }
        self.seen.push(req.clone());
    }

    fn answered(&mut self, id: i64) {
        self.outstanding.remove(&id);
    }
}

fn assert_clean(wire: &Arc<Mutex<Wire>>) {
    let w = wire.lock().unwrap();
    assert!(
        w.violations.is_empty(),
        "property C05 violated on the wire:\n{}",
        w.violations.join("\n")
    );
}

// ---------------------------------------------------------------------------------------
// Manually scripted server for the async tests
// ---------------------------------------------------------------------------------------

struct Srv {
    ev: mpsc::UnboundedReceiver<Req>,
    wr: OwnedWriteHalf,
    wire: Arc<Mutex<Wire>>,
}

impl Srv {
    async fn next_req(&mut self) -> Req {
        tokio::time::timeout(GUARD, self.ev.recv())
            .await
            .expect("hang guard: no request from the client")
            .expect("client closed the connection")
    }

    async fn send(&mut self, bytes: Vec<u8>) {
        self.wr.write_all(&bytes).await.expect("server write");
    }

    /// Final response for `req`.
    async fn answer(&mut self, req: &Req) {
        self.wire.lock().unwrap().answered(req.id);
        let msg = if req.op == 0x63 {
            done_msg(req.id, None)
        } else {
            result_msg(req.id, resp_tag(req.op))
        };
        self.send(msg).await;
    }

    async fn done(&mut self, id: i64, cookie: Option<&[u8]>) {
        self.wire.lock().unwrap().answered(id);
        self.send(done_msg(id, cookie)).await;
    }
}

async fn setup() -> (Ldap, Srv) {
    let listener = TcpListener::bind("127.0.0.1:0").await.unwrap();
    let port = listener.local_addr().unwrap().port();
    let (conn, ldap) = LdapConnAsync::new(&format!("ldap://127.0.0.1:{}", port))
        .await
        .expect("connect");
    ldap3::drive!(conn);
    let (sock, _) = listener.accept().await.unwrap();
    let (mut rd, wr) = sock.into_split();
    let wire = Arc::new(Mutex::new(Wire::default()));
    let (ev_tx, ev) = mpsc::unbounded_channel();
    let wire2 = wire.clone();
    tokio::spawn(async move {
        let mut buf = Vec::new();
        let mut chunk = [0u8; 4096];
        loop {
            while let Some(req) = take_frame(&mut buf) {
                wire2.lock().unwrap().arrived(&req);
                let _ = ev_tx.send(req);
            }
            match rd.read(&mut chunk).await {
                Ok(0) | Err(_) => break,
                Ok(n) => buf.extend(&chunk[..n]),
            }
        }
    });
    (ldap, Srv { ev, wr, wire })
}

// ---------------------------------------------------------------------------------------
// H1: many handles on many threads, everything outstanding at once, answered in reverse
// ---------------------------------------------------------------------------------------

#[tokio::test(flavor = "multi_thread", worker_threads = 4)]
async fn h1_many_handles_many_threads_all_outstanding() {
    const TASKS: usize = 8;
    const OPS: usize = 40;
    let (ldap, mut srv) = setup().await;
    let mut joins = vec![];
    for t in 0..TASKS {
        // every operation of a task on its own clone, issued concurrently
        for o in 0..OPS {
            let mut l = ldap.clone();
            joins.push(tokio::spawn(async move {
                match (t + o) % 4 {
                    0 => l.delete("cn=x").await.map(|r| r.rc),
                    1 => l.compare("cn=x", "a", "b").await.map(|r| r.0.rc),
                    2 => l.extended(WhoAmI).await.map(|r| r.1.rc),
                    _ => l
                        .search("dc=x", Scope::Base, "(objectClass=*)", vec!["a"])
                        .await
                        .map(|r| r.1.rc),
                }
            }));
        }
    }
    let mut reqs = vec![];
    for _ in 0..TASKS * OPS {
        reqs.push(srv.next_req().await);
    }
    {
        let w = srv.wire.lock().unwrap();
        assert_eq!(
            w.outstanding.len(),
            TASKS * OPS,
            "C05 demands {} distinct IDs for {} operations outstanding at once",
            TASKS * OPS,
            TASKS * OPS
        );
    }
    assert_clean(&srv.wire);
    for req in reqs.iter().rev() {
        srv.answer(req).await;
    }
    for j in joins {
        let rc = tokio::time::timeout(GUARD, j)
            .await
            .expect("hang guard")
            .unwrap()
            .expect("operation failed");
        assert_eq!(rc, 0);
    }
    // second wave while nothing is outstanding: still distinct and in range
    let mut l = ldap.clone();
    let j = tokio::spawn(async move { l.delete("cn=y").await });
    let req = srv.next_req().await;
    assert_eq!(req.id, (TASKS * OPS) as i64 + 1);
    srv.answer(&req).await;
    j.await.unwrap().unwrap();
    assert_clean(&srv.wire);
}

// ---------------------------------------------------------------------------------------
// H2: operations which time out (also before the driver has picked them up), the
// last_id()/abandon() idiom, late responses, interleaved with live operations
// ---------------------------------------------------------------------------------------

#[tokio::test(flavor = "multi_thread", worker_threads = 4)]
async fn h2_timeouts_scrubs_abandons_and_late_responses() {
    let (mut ldap, mut srv) = setup().await;
    let mut late = vec![];
    for i in 0..150 {
        // (a) an operation that times out; a zero timeout makes the scrub request race the
        // operation itself to the driver
        let dur = if i % 3 == 0 {
            Duration::ZERO
        } else {
            Duration::from_millis(2)
        };
        let res = ldap.with_timeout(dur).delete("cn=slow").await;
        assert!(
            matches!(res, Err(LdapError::Timeout { .. })),
            "expected a timeout, got {:?}",
            res
        );
        let timed_out = ldap.last_id();
        // (b) a live operation on another handle, outstanding across what follows
        let mut other = ldap.clone();
        let live = tokio::spawn(async move { other.compare("cn=x", "a", "b").await });
        // (c) sometimes the documented idiom: abandon the timed-out operation
        if i % 2 == 0 {
            ldap.abandon(timed_out).await.expect("abandon");
        }
        // the server sees: the timed out Delete (always written, even if its caller had
        // gone), the Compare, possibly the Abandon - in some order
        let expect = if i % 2 == 0 { 3 } else { 2 };
        let mut cmp = None;
        for _ in 0..expect {
            let req = srv.next_req().await;
            match req.op {
                0x4a => {
                    assert_eq!(req.id, timed_out as i64);
                    late.push(req);
                }
                0x6e => cmp = Some(req),
                0x50 => assert_eq!(req.target, Some(timed_out as i64)),
                op => panic!("unexpected op {:#x}", op),
            }
        }
        // a late response for an earlier timed-out operation arrives while the Compare is
        // outstanding
        if late.len() > 3 {
            let old = late.remove(0);
            srv.answer(&old).await;
        }
        srv.answer(&cmp.unwrap()).await;
        let res = tokio::time::timeout(GUARD, live)
            .await
            .expect("hang guard")
            .unwrap()
            .expect("compare failed");
        assert_eq!(res.0.rc, 0);
    }
    assert_clean(&srv.wire);
    // All IDs which left the client are distinct (the counter has not wrapped).
    let w = srv.wire.lock().unwrap();
    let ids: HashSet<i64> = w.seen.iter().map(|r| r.id).collect();
    assert_eq!(ids.len(), w.seen.len(), "an ID was used twice: {:?}", w.seen);
}

// ---------------------------------------------------------------------------------------
// H3: search streams: finish() before the end, abandon through the stream's handle,
// stale entries, PagedResults ended in the middle of a page, a timed-out next()
// ---------------------------------------------------------------------------------------

#[tokio::test(flavor = "multi_thread", worker_threads = 4)]
async fn h3_search_streams_finished_early_paged_and_timed_out() {
    let (mut ldap, mut srv) = setup().await;

    // (a) direct stream, finish() early, abandon, then the server keeps talking
    let mut l = ldap.clone();
    let st = tokio::spawn(async move {
        let mut stream = l
            .streaming_search("dc=a", Scope::Subtree, "(objectClass=*)", vec!["a"])
            .await
            .expect("search a");
        let e = stream.next().await.expect("next").expect("entry");
        assert_eq!(SearchEntry::construct(e).dn, "cn=a1");
        let id = stream.ldap_handle().last_id();
        let res = stream.finish().await;
        assert_eq!(res.rc, 88);
        // an operation through the stream's own handle, after the end
        stream.ldap_handle().abandon(id).await.expect("abandon");
        id
    });
    let sa = srv.next_req().await;
    assert_eq!(sa.op, 0x63);
    srv.send(entry_msg(sa.id, "cn=a1")).await;
    srv.send(entry_msg(sa.id, "cn=a2")).await;
    let ab = srv.next_req().await;
    assert_eq!((ab.op, ab.target), (0x50, Some(sa.id)));
    assert_eq!(st.await.unwrap() as i64, sa.id);

    // (b) a new search while the server still sends entries and a Done for the old one
    let mut l = ldap.clone();
    let st = tokio::spawn(async move {
        let (entries, res) = l
            .search("dc=b", Scope::Subtree, "(objectClass=*)", vec!["a"])
            .await
            .expect("search b")
            .success()
            .expect("rc");
        let _ = res;
        entries
            .into_iter()
            .map(|e| SearchEntry::construct(e).dn)
            .collect::<Vec<_>>()
    });
    let sb = srv.next_req().await;
    assert_ne!(sb.id, sa.id);
    srv.send(entry_msg(sa.id, "cn=a3")).await;
    srv.send(entry_msg(sb.id, "cn=b1")).await;
    srv.send(done_msg(sa.id, None)).await;
    srv.send(entry_msg(sb.id, "cn=b2")).await;
    srv.answer(&sb).await;
    let dns = tokio::time::timeout(GUARD, st).await.expect("hang guard").unwrap();
    assert_eq!(dns, vec!["cn=b1", "cn=b2"]);

    // (c) PagedResults under EntriesOnly: second page started by the adapter, ended by
    // finish() in the middle of it, while another operation is outstanding
    let mut other = ldap.clone();
    let live = tokio::spawn(async move { other.extended(WhoAmI).await });
    let who = srv.next_req().await;
    let mut l = ldap.clone();
    let st = tokio::spawn(async move {
        let adapters: Vec<Box<dyn Adapter<_, _>>> = vec![
            Box::new(EntriesOnly::new()),
            Box::new(PagedResults::new(2)),
        ];
        let mut stream = l
            .streaming_search_with(
                adapters,
                "dc=c",
                Scope::Subtree,
                "(objectClass=*)",
                vec!["a"],
            )
            .await
            .expect("paged search");
        let mut dns = vec![];
        for _ in 0..3 {
            let e = stream.next().await.expect("next").expect("entry");
            dns.push(SearchEntry::construct(e).dn);
        }
        let res = stream.finish().await;
        assert_eq!(res.rc, 88, "finish() in the middle of a page is a cancellation");
        // the handle of the stream is that of the second page now
        let page2 = stream.ldap_handle().last_id();
        stream.ldap_handle().abandon(page2).await.expect("abandon");
        (dns, page2)
    });
    let p1 = srv.next_req().await;
    assert_eq!(p1.op, 0x63);
    srv.send(entry_msg(p1.id, "cn=c1")).await;
    srv.send(entry_msg(p1.id, "cn=c2")).await;
    srv.done(p1.id, Some(b"cookie")).await;
    let p2 = srv.next_req().await;
    assert_eq!(p2.op, 0x63);
    srv.send(entry_msg(p2.id, "cn=c3")).await;
    let ab = srv.next_req().await;
    assert_eq!((ab.op, ab.target), (0x50, Some(p2.id)));
    let (dns, page2) = tokio::time::timeout(GUARD, st).await.expect("hang guard").unwrap();
    assert_eq!(dns, vec!["cn=c1", "cn=c2", "cn=c3"]);
    assert_eq!(page2 as i64, p2.id);
    srv.answer(&who).await;
    live.await.unwrap().expect("whoami");

    // (d) next() which times out, finish() afterwards, then further operations
    let mut stream = ldap
        .with_timeout(Duration::from_millis(20))
        .streaming_search("dc=d", Scope::Subtree, "(objectClass=*)", vec!["a"])
        .await
        .expect("search d");
    let sd = srv.next_req().await;
    srv.send(entry_msg(sd.id, "cn=d1")).await;
    assert!(stream.next().await.expect("next").is_some());
    let res = stream.next().await;
    assert!(matches!(res, Err(LdapError::Timeout { .. })), "{:?}", res);
    assert_eq!(stream.finish().await.rc, 88);
    drop(stream);
    for _ in 0..20 {
        let mut l = ldap.clone();
        let j = tokio::spawn(async move { l.delete("cn=z").await });
        let req = srv.next_req().await;
        // the server only now gets round to the old search
        srv.send(entry_msg(sd.id, "cn=d2")).await;
        srv.answer(&req).await;
        assert_eq!(j.await.unwrap().expect("delete").rc, 0);
    }
    assert_clean(&srv.wire);
    let w = srv.wire.lock().unwrap();
    let ids: HashSet<i64> = w.seen.iter().map(|r| r.id).collect();
    assert_eq!(ids.len(), w.seen.len(), "an ID was used twice: {:?}", w.seen);
}

// ---------------------------------------------------------------------------------------
// H4: the encoding of the ID at every octet-length boundary which can be reached
// (127/128, 255/256, 32767/32768, 65535/65536): a long run of operations on one
// connection, with one operation kept outstanding throughout
// ---------------------------------------------------------------------------------------

#[tokio::test(flavor = "multi_thread", worker_threads = 4)]
async fn h4_ids_across_encoding_boundaries() {
    const N: i64 = 70_000;
    let (mut ldap, mut srv) = setup().await;
    // one operation outstanding during the whole run
    let mut other = ldap.clone();
    let live = tokio::spawn(async move { other.compare("cn=x", "a", "b").await });
    let cmp = srv.next_req().await;
    assert_eq!(cmp.id, 1);
    let sender = tokio::spawn(async move {
        for _ in 0..N {
            // Abandon needs no response from the server; the target doesn't exist
            ldap.abandon(0).await.expect("abandon");
        }
        ldap
    });
    for n in 0..N {
        let req = srv.next_req().await;
        assert_eq!(
            req.id,
            n + 2,
            "C05 demands distinct in-range IDs; request {} should carry the next free ID",
            n
        );
    }
    let _ldap = tokio::time::timeout(GUARD, sender).await.expect("hang guard").unwrap();
    srv.answer(&cmp).await;
    assert_eq!(live.await.unwrap().expect("compare").0.rc, 0);
    assert_clean(&srv.wire);
}

// ---------------------------------------------------------------------------------------
// H5: the peer closes while operations are outstanding; the handle is used again
// ---------------------------------------------------------------------------------------

#[tokio::test(flavor = "multi_thread", worker_threads = 4)]
async fn h5_peer_closes_with_operations_outstanding() {
    let (ldap, mut srv) = setup().await;
    let mut joins = vec![];
    for _ in 0..10 {
        let mut l = ldap.clone();
        joins.push(tokio::spawn(async move { l.delete("cn=x").await }));
    }
    let mut reqs = vec![];
    for _ in 0..10 {
        reqs.push(srv.next_req().await);
    }
    srv.answer(&reqs[3]).await;
    let wire = srv.wire.clone();
    let Srv { mut wr, mut ev, .. } = srv;
    wr.shutdown().await.unwrap();
    drop(wr);
    let mut ok = 0;
    for j in joins {
        if tokio::time::timeout(GUARD, j).await.expect("hang guard").unwrap().is_ok() {
            ok += 1;
        }
    }
    assert_eq!(ok, 1, "only the answered operation can have succeeded");
    // second use after the failure: nothing may leave the client with an ID of one of the
    // nine operations the server never answered
    let mut l = ldap.clone();
    for _ in 0..100 {
        let _ = l.with_timeout(Duration::from_millis(5)).delete("cn=y").await;
        let id = l.last_id();
        let _ = l.abandon(id).await;
    }
    tokio::time::sleep(Duration::from_millis(100)).await;
    while let Ok(req) = ev.try_recv() {
        // whatever still arrives has been checked against the outstanding set on arrival
        let _ = req;
    }
    assert_clean(&wire);
}

// ---------------------------------------------------------------------------------------
// H6: the sync facade: EntryStream ended early, last_id(), abandon(), a timed-out
// operation, then ordinary operations, against an automatic responder
// ---------------------------------------------------------------------------------------

#[test]
fn h6_sync_facade() {
    let rt = tokio::runtime::Builder::new_multi_thread()
        .worker_threads(2)
        .enable_all()
        .build()
        .unwrap();
    let listener = rt.block_on(async { TcpListener::bind("127.0.0.1:0").await.unwrap() });
    let port = listener.local_addr().unwrap().port();
    let wire = Arc::new(Mutex::new(Wire::default()));
    let wire2 = wire.clone();
    rt.spawn(async move {
        let (sock, _) = listener.accept().await.unwrap();
        let (mut rd, mut wr) = sock.into_split();
        let mut buf = Vec::new();
        let mut chunk = [0u8; 4096];
        let mut searches = 0;
        let mut first_search = 0;
        loop {
            while let Some(req) = take_frame(&mut buf) {
                wire2.lock().unwrap().arrived(&req);
                match req.op {
                    0x50 | 0x42 => (),
                    0x63 => {
                        searches += 1;
                        wr.write_all(&entry_msg(req.id, "cn=e1")).await.unwrap();
                        wr.write_all(&entry_msg(req.id, "cn=e2")).await.unwrap();
                        if searches == 1 {
                            // never finished by the server
                            first_search = req.id;
                        } else {
                            // a straggler for the first search, then the end of this one
                            wr.write_all(&entry_msg(first_search, "cn=stale")).await.unwrap();
                            wire2.lock().unwrap().answered(req.id);
                            wr.write_all(&done_msg(req.id, None)).await.unwrap();
                        }
                    }
                    // Delete is never answered
                    0x4a => (),
                    op => {
                        wire2.lock().unwrap().answered(req.id);
                        wr.write_all(&result_msg(req.id, resp_tag(op))).await.unwrap();
                    }
                }
            }
            match rd.read(&mut chunk).await {
                Ok(0) | Err(_) => break,
                Ok(n) => buf.extend(&chunk[..n]),
            }
        }
    });
    let mut conn = LdapConn::new(&format!("ldap://127.0.0.1:{}", port)).expect("connect");
    assert_eq!(conn.simple_bind("cn=u", "p").expect("bind").rc, 0);
    let mut stream = conn
        .streaming_search("dc=s", Scope::Subtree, "(objectClass=*)", vec!["a"])
        .expect("search");
    assert!(stream.next().expect("next").is_some());
    let sid = stream.last_id();
    assert_eq!(stream.result().rc, 88);
    conn.abandon(sid).expect("abandon");
    let res = conn.with_timeout(Duration::from_millis(20)).delete("cn=slow");
    assert!(matches!(res, Err(LdapError::Timeout { .. })), "{:?}", res);
    let did = conn.last_id();
    assert_ne!(did, sid);
    for _ in 0..20 {
        let (entries, _res) = conn
            .search("dc=t", Scope::Subtree, "(objectClass=*)", vec!["a"])
            .expect("search")
            .success()
            .expect("rc");
        let dns: Vec<String> = entries
            .into_iter()
            .map(|e| SearchEntry::construct(e).dn)
            .collect();
        assert_eq!(dns, vec!["cn=e1", "cn=e2"]);
        assert_eq!(conn.compare("cn=x", "a", "b").expect("compare").0.rc, 0);
    }
    conn.abandon(did).expect("abandon");
    conn.unbind().expect("unbind");
    assert_clean(&wire);
    let w = wire.lock().unwrap();
    let ids: HashSet<i64> = w.seen.iter().map(|r| r.id).collect();
    assert_eq!(ids.len(), w.seen.len(), "an ID was used twice: {:?}", w.seen);
}
