// Hunt H23 / property C10: search streams deliver the server's items in order and obey
// the state machine.
//
// DEFECT: the PagedResults adapter's switch to the next page is not safe against a next()
// call which is abandoned (its future dropped) while the follow-up Search is being handed to
// the connection task. At that point the adapter has consumed the final message of the page
// just read and stored that page's result in the stream (SearchStream::res), the receiver
// of the finished page is gone, and the follow-up request is on its way to the server, but
// nothing of the new page has been installed in the stream yet. The stream stays Active:
//
//  * finish() now returns the result of the page just read (rc 0, with a live paging cookie)
//    instead of the synthetic 'cancelled' result (88) which C10 demands for a stream that has
//    not been read to the end: a truncated search is reported as complete;
//  * a further next() fires off a second follow-up Search with the same cookie; whatever
//    the server sends in answer to the first one (the actual next page) is thrown away.
//
// Dropping a pending next() is what every `tokio::select!` loop (shutdown signal, ticker,
// command channel), `tokio::time::timeout(.., stream.next())` and `now_or_never()` does. The
// window is hit whenever the other branch of the select! is ready in the same poll in which
// next() comes upon the end of a page (next() can never get through the switch in one poll:
// it needs a turn of the connection task).
//
// Scripted in-process LDAP server on 127.0.0.1, raw BER. No sleeps are needed for the
// outcome; the timeouts are hang guards.

use std::time::Duration;

use ldap3::adapters::PagedResults;
use ldap3::controls::{Control, ControlType};
use ldap3::{LdapConnAsync, Scope, StreamState};
use tokio::io::{AsyncReadExt, AsyncWriteExt};
use tokio::net::{TcpListener, TcpStream};
use tokio::sync::mpsc;

const GUARD: Duration = Duration::from_secs(10);

// ---------- BER helpers ----------

fn ber_len(n: usize) -> Vec<u8> {
    if n < 128 {
        vec![n as u8]
    } else if n < 256 {
        vec![0x81, n as u8]
    } else {
        vec![0x82, (n >> 8) as u8, n as u8]
    }
}

fn tlv(tag: u8, content: &[u8]) -> Vec<u8> {
    let mut v = vec![tag];
    v.extend(ber_len(content.len()));
    v.extend_from_slice(content);
    v
}

fn cat(parts: &[Vec<u8>]) -> Vec<u8> {
    parts.iter().flat_map(|p| p.iter().copied()).collect()
}

fn int(n: u32) -> Vec<u8> {
    let mut b: Vec<u8> = n.to_be_bytes().to_vec();
    while b.len() > 1 && b[0] == 0 && b[1] & 0x80 == 0 {
        b.remove(0);
    }
    if b[0] & 0x80 != 0 {
        b.insert(0, 0);
    }
    tlv(0x02, &b)
}

fn enumerated(n: u8) -> Vec<u8> {
    tlv(0x0a, &[n])
}

fn octets(s: &[u8]) -> Vec<u8> {
    tlv(0x04, s)
}

fn msg(id: i32, op: Vec<u8>, controls: Option<Vec<u8>>) -> Vec<u8> {
    let mut c = cat(&[int(id as u32), op]);
    if let Some(ctrls) = controls {
        c.extend(tlv(0xa0, &ctrls));
    }
    tlv(0x30, &c)
}

fn entry(dn: &str) -> Vec<u8> {
    tlv(0x64, &cat(&[octets(dn.as_bytes()), tlv(0x30, &[])]))
}

fn done(rc: u8) -> Vec<u8> {
    tlv(0x65, &cat(&[enumerated(rc), octets(b""), octets(b"")]))
}

const PR_OID: &str = "1.2.840.113556.1.4.319";

fn pr_control(cookie: &[u8]) -> Vec<u8> {
    let val = tlv(0x30, &cat(&[int(0), octets(cookie)]));
    tlv(0x30, &cat(&[octets(PR_OID.as_bytes()), octets(&val)]))
}

// ---------- scripted server side ----------

/// Read one LDAPMessage; return (message id, tag octet of the protocol op, whole frame).
async fn read_req(s: &mut TcpStream) -> Option<(i32, u8, Vec<u8>)> {
    let mut hdr = [0u8; 2];
    s.read_exact(&mut hdr).await.ok()?;
    assert_eq!(hdr[0], 0x30);
    let mut frame = hdr.to_vec();
    let len = if hdr[1] < 128 {
        hdr[1] as usize
    } else {
        let n = (hdr[1] & 0x7f) as usize;
        let mut lb = vec![0u8; n];
        s.read_exact(&mut lb).await.ok()?;
        frame.extend(&lb);
        lb.iter().fold(0usize, |a, &b| (a << 8) | b as usize)
    };
    let mut body = vec![0u8; len];
    s.read_exact(&mut body).await.ok()?;
    frame.extend(&body);
    assert_eq!(body[0], 0x02);
    let il = body[1] as usize;
    let id = body[2..2 + il].iter().fold(0i32, |a, &b| (a << 8) | b as i32);
    let op = body[2 + il];
    Some((id, op, frame))
}

fn contains(hay: &[u8], needle: &[u8]) -> bool {
    hay.windows(needle.len()).any(|w| w == needle)
}

async fn client(port: u16) -> ldap3::Ldap {
    let (conn, ldap) = LdapConnAsync::new(&format!("ldap://127.0.0.1:{}", port))
        .await
        .expect("connect");
    ldap3::drive!(conn);
    ldap
}

fn dn_of(re: &ldap3::ResultEntry) -> String {
    ldap3::SearchEntry::construct(re.clone()).dn
}

// ---------- the scripted server ----------

/// Server for a two-page search, with a paging cursor which can be used once, like a real
/// server's: a Search request without a cookie gets page 1 (entry "cn=a", Done/success with
/// cookie "C1"); the first Search request carrying "C1" gets page 2 (entry "cn=b",
/// Done/success with an empty cookie); a repeated "C1" is refused (Done/unwillingToPerform).
/// Every Search request seen is reported on `seen` as (message id, carries the cookie).
async fn two_page_server(listener: TcpListener, seen: mpsc::UnboundedSender<(i32, bool)>) {
    let (mut s, _) = listener.accept().await.unwrap();
    let mut cookie_used = false;
    while let Some((id, op, frame)) = read_req(&mut s).await {
        if op != 0x63 {
            continue;
        }
        let with_cookie = contains(&frame, b"C1");
        let out = if !with_cookie {
            cat(&[
                msg(id, entry("cn=a"), None),
                msg(id, done(0), Some(pr_control(b"C1"))),
            ])
        } else if !cookie_used {
            cookie_used = true;
            cat(&[
                msg(id, entry("cn=b"), None),
                msg(id, done(0), Some(pr_control(b""))),
            ])
        } else {
            msg(id, done(53), None)
        };
        if s.write_all(&out).await.is_err() {
            break;
        }
        let _ = seen.send((id, with_cookie));
    }
}

type Stream<'a> = ldap3::SearchStream<'a, &'static str, Vec<&'static str>>;

async fn start_paged(port: u16) -> (ldap3::Ldap, Stream<'static>) {
    let mut ldap = client(port).await;
    let stream = tokio::time::timeout(
        GUARD,
        ldap.streaming_search_with(
            PagedResults::new(1),
            "dc=example",
            Scope::Subtree,
            "(objectClass=*)",
            vec!["cn"],
        ),
    )
    .await
    .expect("hang guard")
    .expect("search started");
    (ldap, stream)
}

/// What a `select!` loop does when its other branch is ready: poll next() once and drop it.
/// Repeated until the poll is the one in which next() comes upon the end of page 1, which
/// shows in the follow-up request (the one with the cookie) arriving at the server. Polls
/// before that are harmless: they find the channel empty and consume nothing.
async fn abandon_next_at_page_boundary(
    stream: &mut Stream<'static>,
    seen_rx: &mut mpsc::UnboundedReceiver<(i32, bool)>,
) {
    for _ in 0..200 {
        tokio::select! {
            biased;
            r = stream.next() => panic!(
                "next() isn't expected to complete in a single poll at this point: {:?}",
                r.map(|o| o.map(|e| dn_of(&e)))
            ),
            _ = std::future::ready(()) => (), // the other branch: shutdown signal, tick, command...
        };
        if let Ok(Some((_, true))) =
            tokio::time::timeout(Duration::from_millis(100), seen_rx.recv()).await
        {
            return;
        }
    }
    panic!("the end of page 1 has never been reached");
}

// ---------- the demonstration ----------

/// finish() after a next() abandoned at the page boundary.
#[tokio::test]
async fn finish_after_next_abandoned_at_page_boundary() {
    let listener = TcpListener::bind("127.0.0.1:0").await.unwrap();
    let port = listener.local_addr().unwrap().port();
    let (seen_tx, mut seen_rx) = mpsc::unbounded_channel();
    tokio::spawn(two_page_server(listener, seen_tx));
    let (_ldap, mut stream) = start_paged(port).await;

    let first = tokio::time::timeout(GUARD, stream.next())
        .await
        .expect("hang guard")
        .expect("next")
        .expect("entry");
    assert_eq!(dn_of(&first), "cn=a");
    assert_eq!(seen_rx.recv().await, Some((1, false)));

    abandon_next_at_page_boundary(&mut stream, &mut seen_rx).await;

    // Only page 1 has been read. The server holds a second page, and has said so: the
    // cookie in page 1's result is not empty. The caller stops here.
    assert_eq!(
        stream.state(),
        StreamState::Active,
        "the stream is in the middle of the search"
    );
    let res = stream.finish().await;
    let live_cookie = res.ctrls.iter().any(|c| {
        matches!(c, Control(Some(ControlType::PagedResults), raw)
            if !raw.parse::<ldap3::controls::PagedResults>().cookie.is_empty())
    });
    assert_eq!(
        res.rc, 88,
        "C10: finish() on a stream which has not been read to the end must return the synthetic \
         'cancelled' result (88); it returned rc={} text={:?} (the result of page 1; live paging \
         cookie among its controls: {}), i.e., a truncated search is reported as complete",
        res.rc, res.text, live_cookie
    );
    assert_eq!(stream.state(), StreamState::Closed);
    assert_eq!(stream.finish().await.rc, 80);
}

/// Reading on after a next() abandoned at the page boundary.
#[tokio::test]
async fn items_lost_after_next_abandoned_at_page_boundary() {
    let listener = TcpListener::bind("127.0.0.1:0").await.unwrap();
    let port = listener.local_addr().unwrap().port();
    let (seen_tx, mut seen_rx) = mpsc::unbounded_channel();
    tokio::spawn(two_page_server(listener, seen_tx));
    let (_ldap, mut stream) = start_paged(port).await;

    let mut got = vec![];
    let first = tokio::time::timeout(GUARD, stream.next())
        .await
        .expect("hang guard")
        .expect("next")
        .expect("entry");
    got.push(dn_of(&first));
    assert_eq!(seen_rx.recv().await, Some((1, false)));

    abandon_next_at_page_boundary(&mut stream, &mut seen_rx).await;

    // This time the caller comes back and reads the stream to the end.
    let mut failure = None;
    loop {
        match tokio::time::timeout(GUARD, stream.next()).await.expect("hang guard") {
            Ok(Some(re)) => got.push(dn_of(&re)),
            Ok(None) => break,
            Err(e) => {
                failure = Some(format!("{}", e));
                break;
            }
        }
    }
    let state = stream.state();
    let res = stream.finish().await;
    // let the server's report of the last request come in
    let mut searches = 2;
    while let Ok(Some(_)) = tokio::time::timeout(Duration::from_millis(300), seen_rx.recv()).await {
        searches += 1;
    }
    assert!(
        got == ["cn=a", "cn=b"] && failure.is_none() && res.rc == 0,
        "C10: the stream must yield exactly the items the server sent for the search (cn=a, \
         cn=b), in order, then Ok(None), and finish() must return the server's final result \
         (rc 0). It yielded {:?} (failure: {:?}, state at the end: {:?}) and finish() returned \
         rc={}; the server got {} Search requests for a two-page search: it answered the \
         follow-up request sent by the abandoned call with page 2 (cn=b), which was thrown \
         away, and refused the cookie presented a second time",
        got, failure, state, res.rc, searches
    );
}
