// Hunt H23 / property C10: hypotheses which were tested and turned out fine (these tests pass).
// The demonstration of the defect that was found is in hunt_demo.rs.
//
// Scripted in-process LDAP server on 127.0.0.1, raw BER.

use std::time::Duration;

use ldap3::adapters::{Adapter, EntriesOnly, PagedResults};
use ldap3::{LdapConnAsync, Scope, StreamState};
use tokio::io::{AsyncReadExt, AsyncWriteExt};
use tokio::net::{TcpListener, TcpStream};

const GUARD: Duration = Duration::from_secs(10);

// ---------- BER helpers ----------

fn ber_len(n: usize) -> Vec<u8> {
    if n < 128 {
        vec![n as u8]
    } else if n < 256 {
        vec![0x81, n as u8]
    } else {
        vec![0x82, (n >> 8) as u8, n as u8]
    }
}

fn tlv(tag: u8, content: &[u8]) -> Vec<u8> {
    let mut v = vec![tag];
    v.extend(ber_len(content.len()));
    v.extend_from_slice(content);
    v
}

fn cat(parts: &[Vec<u8>]) -> Vec<u8> {
    parts.iter().flat_map(|p| p.iter().copied()).collect()
}

fn int(n: u32) -> Vec<u8> {
    let mut b: Vec<u8> = n.to_be_bytes().to_vec();
    while b.len() > 1 && b[0] == 0 && b[1] & 0x80 == 0 {
        b.remove(0);
    }
    if b[0] & 0x80 != 0 {
        b.insert(0, 0);
    }
    tlv(0x02, &b)
}

fn enumerated(n: u8) -> Vec<u8> {
    tlv(0x0a, &[n])
}

fn octets(s: &[u8]) -> Vec<u8> {
    tlv(0x04, s)
}

fn msg(id: i32, op: Vec<u8>, controls: Option<Vec<u8>>) -> Vec<u8> {
    let mut c = cat(&[int(id as u32), op]);
    if let Some(ctrls) = controls {
        c.extend(tlv(0xa0, &ctrls));
    }
    tlv(0x30, &c)
}

fn entry(dn: &str) -> Vec<u8> {
    tlv(0x64, &cat(&[octets(dn.as_bytes()), tlv(0x30, &[])]))
}

fn reference(uri: &str) -> Vec<u8> {
    tlv(0x73, &octets(uri.as_bytes()))
}

fn intermediate() -> Vec<u8> {
    tlv(0x79, &[])
}

fn done(rc: u8) -> Vec<u8> {
    tlv(0x65, &cat(&[enumerated(rc), octets(b""), octets(b"")]))
}

const PR_OID: &str = "1.2.840.113556.1.4.319";

fn pr_control(cookie: &[u8]) -> Vec<u8> {
    let val = tlv(0x30, &cat(&[int(0), octets(cookie)]));
    tlv(0x30, &cat(&[octets(PR_OID.as_bytes()), octets(&val)]))
}

fn other_control(oid: &str) -> Vec<u8> {
    tlv(0x30, &octets(oid.as_bytes()))
}

// ---------- scripted server side ----------

/// Read one LDAPMessage; return (message id, tag octet of the protocol op, whole frame).
async fn read_req(s: &mut TcpStream) -> Option<(i32, u8, Vec<u8>)> {
    let mut hdr = [0u8; 2];
    s.read_exact(&mut hdr).await.ok()?;
    assert_eq!(hdr[0], 0x30);
    let mut frame = hdr.to_vec();
    let len = if hdr[1] < 128 {
        hdr[1] as usize
    } else {
        let n = (hdr[1] & 0x7f) as usize;
        let mut lb = vec![0u8; n];
        s.read_exact(&mut lb).await.ok()?;
        frame.extend(&lb);
        lb.iter().fold(0usize, |a, &b| (a << 8) | b as usize)
    };
    let mut body = vec![0u8; len];
    s.read_exact(&mut body).await.ok()?;
    frame.extend(&body);
    assert_eq!(body[0], 0x02);
    let il = body[1] as usize;
    let id = body[2..2 + il].iter().fold(0i32, |a, &b| (a << 8) | b as i32);
    let op = body[2 + il];
    Some((id, op, frame))
}

fn contains(hay: &[u8], needle: &[u8]) -> bool {
    hay.windows(needle.len()).any(|w| w == needle)
}

async fn client(port: u16) -> ldap3::Ldap {
    let (conn, ldap) = LdapConnAsync::new(&format!("ldap://127.0.0.1:{}", port))
        .await
        .expect("connect");
    ldap3::drive!(conn);
    ldap
}

fn dn_of(re: &ldap3::ResultEntry) -> String {
    ldap3::SearchEntry::construct(re.clone()).dn
}

// ---------- other hypotheses (expected to hold) ----------

/// H2: direct stream; items of all kinds with per-item controls, the server closes right
/// after the final message. Everything is delivered in order, then Ok(None); finish() gives the
/// server's result with its controls, a second finish() 80, next() afterwards Ok(None).
#[tokio::test]
async fn h2_direct_stream_order_and_close_after_done() {
    let listener = TcpListener::bind("127.0.0.1:0").await.unwrap();
    let port = listener.local_addr().unwrap().port();
    tokio::spawn(async move {
        let (mut s, _) = listener.accept().await.unwrap();
        let (id, op, _) = read_req(&mut s).await.unwrap();
        assert_eq!(op, 0x63);
        let out = cat(&[
            msg(id, entry("cn=1"), Some(other_control("1.1.1"))),
            msg(id, reference("ldap://x/"), Some(other_control("1.1.2"))),
            msg(id, intermediate(), None),
            msg(id, entry("cn=2"), Some(vec![])),
            msg(id, done(4), Some(other_control("1.1.3"))),
        ]);
        s.write_all(&out).await.unwrap();
        s.shutdown().await.unwrap();
    });
    let mut ldap = client(port).await;
    let mut stream = ldap
        .streaming_search("dc=example", Scope::Subtree, "(a=b)", vec!["cn"])
        .await
        .unwrap();
    tokio::time::sleep(Duration::from_millis(200)).await;
    let mut kinds = vec![];
    while let Some(re) = tokio::time::timeout(GUARD, stream.next()).await.unwrap().unwrap() {
        let k = if re.is_ref() {
            "ref"
        } else if re.is_intermediate() {
            "int"
        } else {
            "ent"
        };
        kinds.push((k, re.1.iter().map(|c| c.1.ctype.clone()).collect::<Vec<_>>()));
    }
    assert_eq!(
        kinds,
        vec![
            ("ent", vec!["1.1.1".to_string()]),
            ("ref", vec!["1.1.2".to_string()]),
            ("int", vec![]),
            ("ent", vec![]),
        ]
    );
    assert_eq!(stream.state(), StreamState::Done);
    assert!(stream.next().await.unwrap().is_none());
    let res = stream.finish().await;
    assert_eq!(res.rc, 4);
    assert_eq!(res.ctrls.len(), 1);
    assert_eq!(res.ctrls[0].1.ctype, "1.1.3");
    assert_eq!(stream.state(), StreamState::Closed);
    assert_eq!(stream.finish().await.rc, 80);
    assert!(stream.next().await.unwrap().is_none());
}

/// H3: finish() while the final message is already waiting in the channel: 88, then 80.
#[tokio::test]
async fn h3_finish_early_with_done_queued() {
    let listener = TcpListener::bind("127.0.0.1:0").await.unwrap();
    let port = listener.local_addr().unwrap().port();
    tokio::spawn(async move {
        let (mut s, _) = listener.accept().await.unwrap();
        let (id, _, _) = read_req(&mut s).await.unwrap();
        let out = cat(&[msg(id, entry("cn=1"), None), msg(id, done(0), None)]);
        s.write_all(&out).await.unwrap();
        // a second search on the same connection still works
        let (id, _, _) = read_req(&mut s).await.unwrap();
        let out = cat(&[msg(id, entry("cn=9"), None), msg(id, done(0), None)]);
        s.write_all(&out).await.unwrap();
        let _ = read_req(&mut s).await;
    });
    let mut ldap = client(port).await;
    let mut stream = ldap
        .streaming_search("dc=example", Scope::Subtree, "(a=b)", vec!["cn"])
        .await
        .unwrap();
    tokio::time::sleep(Duration::from_millis(200)).await;
    assert!(stream.next().await.unwrap().is_some());
    assert_eq!(stream.finish().await.rc, 88);
    assert_eq!(stream.finish().await.rc, 80);
    assert!(stream.next().await.unwrap().is_none());
    let (es, res) = tokio::time::timeout(
        GUARD,
        ldap.search("dc=example", Scope::Subtree, "(a=b)", vec!["cn"]),
    )
    .await
    .unwrap()
    .unwrap()
    .success()
    .unwrap();
    assert_eq!(es.len(), 1);
    assert_eq!(dn_of(&es[0]), "cn=9");
    assert_eq!(res.rc, 0);
}

/// H4: [PagedResults, EntriesOnly] and [EntriesOnly, PagedResults] over two pages with
/// references and intermediate messages: entries in order, references merged in order,
/// the last page's result (without the paging control, with its other controls).
#[tokio::test]
async fn h4_adapter_orders_over_two_pages() {
    for order in 0..2 {
        let listener = TcpListener::bind("127.0.0.1:0").await.unwrap();
        let port = listener.local_addr().unwrap().port();
        tokio::spawn(async move {
            let (mut s, _) = listener.accept().await.unwrap();
            let (id, _, frame) = read_req(&mut s).await.unwrap();
            assert!(contains(&frame, PR_OID.as_bytes()));
            let out = cat(&[
                msg(id, reference("ldap://r1/"), None),
                msg(id, entry("cn=1"), None),
                msg(id, intermediate(), None),
                msg(id, done(0), Some(cat(&[other_control("1.1.1"), pr_control(b"C1")]))),
            ]);
            s.write_all(&out).await.unwrap();
            let (id, _, frame) = read_req(&mut s).await.unwrap();
            assert!(contains(&frame, b"C1"));
            let out = cat(&[
                msg(id, entry("cn=2"), None),
                msg(id, reference("ldap://r2/"), None),
                msg(id, done(10), Some(cat(&[pr_control(b""), other_control("1.1.2")]))),
            ]);
            s.write_all(&out).await.unwrap();
            let _ = read_req(&mut s).await;
        });
        let mut ldap = client(port).await;
        let adapters: Vec<Box<dyn Adapter<_, _>>> = if order == 0 {
            vec![Box::new(PagedResults::new(2)), Box::new(EntriesOnly::new())]
        } else {
            vec![Box::new(EntriesOnly::new()), Box::new(PagedResults::new(2))]
        };
        let mut stream = ldap
            .streaming_search_with(adapters, "dc=example", Scope::Subtree, "(a=b)", vec!["cn"])
            .await
            .unwrap();
        let mut dns = vec![];
        while let Some(re) = tokio::time::timeout(GUARD, stream.next()).await.unwrap().unwrap() {
            dns.push(dn_of(&re));
        }
        assert_eq!(dns, ["cn=1", "cn=2"], "order {}", order);
        assert_eq!(stream.state(), StreamState::Done);
        let res = stream.finish().await;
        assert_eq!(res.rc, 10, "order {}", order);
        assert_eq!(res.refs, ["ldap://r1/", "ldap://r2/"], "order {}", order);
        let oids: Vec<_> = res.ctrls.iter().map(|c| c.1.ctype.clone()).collect();
        assert_eq!(oids, ["1.1.2"], "order {}", order);
        assert_eq!(stream.finish().await.rc, 80);
    }
}

/// H5: per-item timeout on page 2 of a paged search: Err(Timeout), Error state, 88, 80;
/// the handle stays usable.
#[tokio::test]
async fn h5_timeout_on_second_page() {
    let listener = TcpListener::bind("127.0.0.1:0").await.unwrap();
    let port = listener.local_addr().unwrap().port();
    tokio::spawn(async move {
        let (mut s, _) = listener.accept().await.unwrap();
        let (id, _, _) = read_req(&mut s).await.unwrap();
        let out = cat(&[
            msg(id, entry("cn=1"), None),
            msg(id, done(0), Some(pr_control(b"C1"))),
        ]);
        s.write_all(&out).await.unwrap();
        let (_id2, _, _) = read_req(&mut s).await.unwrap();
        // never answer page 2; answer the next search
        loop {
            let (id, op, _) = match read_req(&mut s).await {
                Some(r) => r,
                None => break,
            };
            if op == 0x63 {
                let out = cat(&[msg(id, entry("cn=9"), None), msg(id, done(0), None)]);
                s.write_all(&out).await.unwrap();
            }
        }
    });
    let mut ldap = client(port).await;
    let mut stream = ldap
        .with_timeout(Duration::from_millis(300))
        .streaming_search_with(
            PagedResults::new(1),
            "dc=example",
            Scope::Subtree,
            "(a=b)",
            vec!["cn"],
        )
        .await
        .unwrap();
    assert_eq!(dn_of(&stream.next().await.unwrap().unwrap()), "cn=1");
    let r = tokio::time::timeout(GUARD, stream.next()).await.unwrap();
    assert!(matches!(r, Err(ldap3::LdapError::Timeout { .. })), "{:?}", r.map(|_| ()));
    assert_eq!(stream.state(), StreamState::Error);
    assert!(stream.next().await.unwrap().is_none());
    assert_eq!(stream.finish().await.rc, 88);
    assert_eq!(stream.finish().await.rc, 80);
    let (es, _) = tokio::time::timeout(
        GUARD,
        ldap.search("dc=example", Scope::Subtree, "(a=b)", vec!["cn"]),
    )
    .await
    .unwrap()
    .unwrap()
    .success()
    .unwrap();
    assert_eq!(dn_of(&es[0]), "cn=9");
}

/// H6: operations through the stream's handle in the middle of the search (a locally refused
/// Add, an Abandon of an unrelated id) don't disturb the stream.
#[tokio::test]
async fn h6_handle_ops_during_stream() {
    let listener = TcpListener::bind("127.0.0.1:0").await.unwrap();
    let port = listener.local_addr().unwrap().port();
    tokio::spawn(async move {
        let (mut s, _) = listener.accept().await.unwrap();
        let (id, _, _) = read_req(&mut s).await.unwrap();
        s.write_all(&msg(id, entry("cn=1"), None)).await.unwrap();
        // wait for the Abandon
        let (_aid, op, _) = read_req(&mut s).await.unwrap();
        assert_eq!(op, 0x50);
        let out = cat(&[msg(id, entry("cn=2"), None), msg(id, done(0), None)]);
        s.write_all(&out).await.unwrap();
        let _ = read_req(&mut s).await;
    });
    let mut ldap = client(port).await;
    let mut stream = ldap
        .streaming_search_with(
            EntriesOnly::new(),
            "dc=example",
            Scope::Subtree,
            "(a=b)",
            vec!["cn"],
        )
        .await
        .unwrap();
    assert_eq!(dn_of(&stream.next().await.unwrap().unwrap()), "cn=1");
    let h = stream.ldap_handle();
    let empty: Vec<(&str, std::collections::HashSet<&str>)> =
        vec![("cn", std::collections::HashSet::new())];
    assert!(h
        .with_timeout(Duration::from_millis(1))
        .add("cn=x", empty)
        .await
        .is_err());
    h.abandon(12345).await.unwrap();
    assert_eq!(
        dn_of(&tokio::time::timeout(GUARD, stream.next()).await.unwrap().unwrap().unwrap()),
        "cn=2"
    );
    assert!(stream.next().await.unwrap().is_none());
    assert_eq!(stream.state(), StreamState::Done);
    assert_eq!(stream.finish().await.rc, 0);
}
