// DEMONSTRATION for property C02:
//
//   "Controls, timeout and search options set on a handle affect exactly the next operation
//    invoked on it and none after it."
//
// The handle in question is the one a SearchStream hands out through the public
// SearchStream::ldap_handle(). When the stream is driven by the PagedResults adapter and the
// server answers a page with a non-empty cookie, the adapter fetches the next page with a
// private handle and then REPLACES the stream's handle by that of the new internal stream
// (adapters.rs, PagedResults::next: `stream.ldap = new_stream.ldap;`). Controls, search options
// and a timeout which the caller has set on the stream's handle and which are waiting for the
// next operation are thrown away with the old handle: they ride on no request at all. Whether
// this happens depends only on the peer (one page or several), not on the caller.
//
// A scripted in-process LDAP server records every LDAPMessage it receives and decodes it with
// an independent, minimal BER reader (nothing from lber is used for decoding).
#![allow(dead_code, unused_imports)]

use std::collections::HashSet;
use std::sync::{Arc, Mutex};
use std::time::Duration;

use ldap3::adapters::{Adapter, EntriesOnly, PagedResults};
use ldap3::controls::{self, RawControl};
use ldap3::exop::{PasswordModify, WhoAmI};
use ldap3::{DerefAliases, Ldap, LdapConnAsync, Mod, Scope, SearchOptions};

use tokio::io::{AsyncReadExt, AsyncWriteExt};
use tokio::net::TcpListener;

// ---------------------------------------------------------------- independent BER reader

#[derive(Clone, Debug, PartialEq)]
struct Tlv {
    class: u8,
    constructed: bool,
    tag: u32,
    val: Vec<u8>,
    kids: Vec<Tlv>,
}

fn read_tlv(b: &[u8]) -> Option<(Tlv, usize)> {
    if b.len() < 2 {
        return None;
    }
    let class = b[0] >> 6;
    let constructed = b[0] & 0x20 != 0;
    let mut tag = (b[0] & 0x1f) as u32;
    let mut p = 1;
    if tag == 0x1f {
        tag = 0;
        loop {
            let o = *b.get(p)?;
            p += 1;
            tag = (tag << 7) | (o & 0x7f) as u32;
            if o & 0x80 == 0 {
                break;
            }
        }
    }
    let l0 = *b.get(p)?;
    p += 1;
    let len = if l0 < 0x80 {
        l0 as usize
    } else {
        let n = (l0 & 0x7f) as usize;
        if n == 0 || n > 4 {
            return None;
        }
        let mut l = 0usize;
        for _ in 0..n {
            l = (l << 8) | *b.get(p)? as usize;
            p += 1;
        }
        l
    };
    if b.len() < p + len {
        return None;
    }
    let val = b[p..p + len].to_vec();
    let mut kids = vec![];
    if constructed {
        let mut q = 0;
        while q < val.len() {
            let (k, used) = read_tlv(&val[q..])?;
            kids.push(k);
            q += used;
        }
    }
    Some((
        Tlv {
            class,
            constructed,
            tag,
            val,
            kids,
        },
        p + len,
    ))
}

fn int_of(t: &Tlv) -> i64 {
    let mut v: i64 = if t.val.first().map(|b| b & 0x80 != 0).unwrap_or(false) {
        -1
    } else {
        0
    };
    for b in &t.val {
        v = (v << 8) | *b as i64;
    }
    v
}

#[derive(Clone, Debug, PartialEq)]
struct Ctl {
    oid: String,
    crit: bool,
    val: Option<Vec<u8>>,
}

#[derive(Clone, Debug)]
struct Req {
    raw: Vec<u8>,
    id: i64,
    op: Tlv,
    ctrls: Option<Vec<Ctl>>,
}

fn decode_req(raw: &[u8]) -> Req {
    let (m, used) = read_tlv(raw).expect("well-formed LDAPMessage");
    assert_eq!(used, raw.len(), "exactly one TLV per frame");
    assert!(m.class == 0 && m.constructed && m.tag == 16, "LDAPMessage is a SEQUENCE");
    assert!(m.kids.len() == 2 || m.kids.len() == 3, "LDAPMessage has 2 or 3 elements");
    let idt = &m.kids[0];
    assert!(idt.class == 0 && !idt.constructed && idt.tag == 2, "messageID INTEGER");
    let op = m.kids[1].clone();
    assert_eq!(op.class, 1, "protocolOp is APPLICATION class");
    let ctrls = m.kids.get(2).map(|c| {
        assert!(c.class == 2 && c.constructed && c.tag == 0, "controls [0]");
        c.kids
            .iter()
            .map(|k| {
                assert!(k.class == 0 && k.constructed && k.tag == 16);
                let oid = String::from_utf8(k.kids[0].val.clone()).unwrap();
                let mut crit = false;
                let mut val = None;
                for e in &k.kids[1..] {
                    if e.tag == 1 {
                        crit = e.val[0] != 0;
                    } else if e.tag == 4 {
                        val = Some(e.val.clone());
                    } else {
                        panic!("bad control element");
                    }
                }
                Ctl { oid, crit, val }
            })
            .collect()
    });
    Req {
        raw: raw.to_vec(),
        id: int_of(idt),
        op,
        ctrls,
    }
}

// ---------------------------------------------------------------- BER writer for responses

fn wlen(out: &mut Vec<u8>, len: usize) {
    if len < 128 {
        out.push(len as u8);
    } else if len < 256 {
        out.push(0x81);
        out.push(len as u8);
    } else {
        out.push(0x82);
        out.push((len >> 8) as u8);
        out.push(len as u8);
    }
}

fn tlv(t: u8, body: &[u8]) -> Vec<u8> {
    let mut out = vec![t];
    wlen(&mut out, body.len());
    out.extend_from_slice(body);
    out
}

fn ldap_result_body(rc: u8) -> Vec<u8> {
    let mut b = tlv(0x0a, &[rc]);
    b.extend(tlv(0x04, b""));
    b.extend(tlv(0x04, b""));
    b
}

fn message(id: i64, op: Vec<u8>, ctrls: Option<Vec<u8>>) -> Vec<u8> {
    let mut idb = vec![];
    let be = (id as i32).to_be_bytes();
    let mut s = 0;
    while s < 3 && be[s] == 0 && be[s + 1] < 0x80 {
        s += 1;
    }
    idb.extend_from_slice(&be[s..]);
    let mut body = tlv(0x02, &idb);
    body.extend(op);
    if let Some(c) = ctrls {
        body.extend(tlv(0xa0, &c));
    }
    tlv(0x30, &body)
}

fn paged_ctrl(cookie: &[u8]) -> Vec<u8> {
    let mut v = tlv(0x02, &[0]);
    v.extend(tlv(0x04, cookie));
    let v = tlv(0x30, &v);
    let mut c = tlv(0x04, b"1.2.840.113556.1.4.319");
    c.extend(tlv(0x04, &v));
    tlv(0x30, &c)
}

fn entry(dn: &str) -> Vec<u8> {
    let mut b = tlv(0x04, dn.as_bytes());
    b.extend(tlv(0x30, b""));
    tlv(0x64, &b)
}

// ---------------------------------------------------------------- scripted server

#[derive(Clone, Default)]
struct Script {
    /// For the n-th Search received (0-based): number of entries and the paging cookie to return.
    pages: Vec<(usize, Vec<u8>)>,
    /// Don't answer operations whose (0-based) ordinal is in this set.
    mute: HashSet<usize>,
    /// Close the connection right after receiving the request with this ordinal.
    close_after: Option<usize>,
}

struct Server {
    url: String,
    reqs: Arc<Mutex<Vec<Req>>>,
}

async fn server(script: Script) -> Server {
    let listener = TcpListener::bind("127.0.0.1:0").await.unwrap();
    let port = listener.local_addr().unwrap().port();
    let reqs = Arc::new(Mutex::new(Vec::new()));
    let reqs2 = reqs.clone();
    tokio::spawn(async move {
        let (mut sock, _) = listener.accept().await.unwrap();
        let mut buf: Vec<u8> = vec![];
        let mut nsearch = 0usize;
        let mut ord = 0usize;
        loop {
            let mut chunk = vec![0u8; 65536];
            let n = match sock.read(&mut chunk).await {
                Ok(0) | Err(_) => return,
                Ok(n) => n,
            };
            buf.extend_from_slice(&chunk[..n]);
            while let Some((_, used)) = read_tlv(&buf) {
                let raw: Vec<u8> = buf.drain(..used).collect();
                let req = decode_req(&raw);
                reqs2.lock().unwrap().push(req.clone());
                let this = ord;
                ord += 1;
                if script.close_after == Some(this) {
                    let _ = sock.shutdown().await;
                    return;
                }
                if script.mute.contains(&this) {
                    if req.op.tag == 3 {
                        nsearch += 1;
                    }
                    continue;
                }
                let mut out = vec![];
                match req.op.tag {
                    0 => out.extend(message(req.id, tlv(0x61, &ldap_result_body(0)), None)),
                    2 => return,
                    3 => {
                        let (n, cookie) = script
                            .pages
                            .get(nsearch)
                            .cloned()
                            .unwrap_or((1, vec![]));
                        for i in 0..n {
                            out.extend(message(
                                req.id,
                                entry(&format!("cn=e{}-{},dc=x", nsearch, i)),
                                None,
                            ));
                        }
                        let has_pr = req
                            .ctrls
                            .as_ref()
                            .map(|c| c.iter().any(|c| c.oid == "1.2.840.113556.1.4.319"))
                            .unwrap_or(false);
                        out.extend(message(
                            req.id,
                            tlv(0x65, &ldap_result_body(0)),
                            if has_pr { Some(paged_ctrl(&cookie)) } else { None },
                        ));
                        nsearch += 1;
                    }
                    6 => out.extend(message(req.id, tlv(0x67, &ldap_result_body(0)), None)),
                    8 => out.extend(message(req.id, tlv(0x69, &ldap_result_body(0)), None)),
                    10 => out.extend(message(req.id, tlv(0x6b, &ldap_result_body(0)), None)),
                    12 => out.extend(message(req.id, tlv(0x6d, &ldap_result_body(0)), None)),
                    14 => out.extend(message(req.id, tlv(0x6f, &ldap_result_body(6)), None)),
                    16 => {}
                    23 => out.extend(message(req.id, tlv(0x78, &ldap_result_body(0)), None)),
                    t => panic!("unexpected op {}", t),
                }
                if !out.is_empty() && sock.write_all(&out).await.is_err() {
                    return;
                }
            }
        }
    });
    Server {
        url: format!("ldap://127.0.0.1:{}", port),
        reqs,
    }
}

async fn connect(s: &Server) -> Ldap {
    let (conn, ldap) = LdapConnAsync::new(&s.url).await.unwrap();
    ldap3::drive!(conn);
    ldap
}

fn ctl(oid: &str, crit: bool, val: Option<&[u8]>) -> RawControl {
    RawControl {
        ctype: oid.to_owned(),
        crit,
        val: val.map(|v| v.to_vec()),
    }
}

fn oids(r: &Req) -> Vec<String> {
    r.ctrls
        .clone()
        .unwrap_or_default()
        .into_iter()
        .map(|c| c.oid)
        .collect()
}

/// (sizelimit, timelimit, typesonly, deref) of a SearchRequest
fn sopts(r: &Req) -> (i64, i64, bool, i64) {
    assert_eq!(r.op.tag, 3);
    (
        int_of(&r.op.kids[3]),
        int_of(&r.op.kids[4]),
        r.op.kids[5].val[0] != 0,
        int_of(&r.op.kids[2]),
    )
}

const GUARD: Duration = Duration::from_secs(20);


// ---------------------------------------------------------------- demonstration

/// The same sequence of public API calls against a server which returns the result set in
/// `npages` pages. Returns the requests the server saw.
async fn run(npages: usize) -> Vec<Req> {
    let mut pages = vec![];
    for p in 0..npages {
        let cookie = if p + 1 < npages { format!("cookie{}", p).into_bytes() } else { vec![] };
        pages.push((1usize, cookie));
    }
    let s = server(Script { pages, ..Default::default() }).await;
    let mut ldap = connect(&s).await;
    let mut stream = ldap
        .streaming_search_with(PagedResults::new(1), "dc=x", Scope::Subtree, "(a=b)", vec!["q"])
        .await
        .unwrap();
    // Modifiers for the next operation which will be invoked on the stream's handle.
    stream
        .ldap_handle()
        .with_controls(vec![ctl("1.3.6.1.4.1.99999.7", true, Some(b"val"))])
        .with_search_options(SearchOptions::new().sizelimit(77).typesonly(true))
        .with_timeout(GUARD);
    // Read the result set to the end; no operation is invoked on the handle meanwhile.
    let mut n = 0;
    while let Some(_e) = stream.next().await.unwrap() {
        n += 1;
    }
    assert_eq!(n, npages);
    assert_eq!(stream.finish().await.rc, 0);
    // The next operation invoked on the handle.
    stream
        .ldap_handle()
        .search("cn=later", Scope::Base, "(c=d)", vec!["r"])
        .await
        .unwrap();
    let reqs = s.reqs.lock().unwrap().clone();
    reqs
}

fn check(npages: usize, reqs: &[Req]) {
    assert_eq!(reqs.len(), npages + 1, "{} page requests and the later search", npages);
    // the page requests carry the paging control only
    for r in &reqs[..npages] {
        assert_eq!(oids(r), vec!["1.2.840.113556.1.4.319".to_string()]);
        assert_eq!(sopts(r), (0, 0, false, 0));
    }
    let later = &reqs[npages];
    assert_eq!(later.op.tag, 3);
    assert_eq!(later.op.kids[0].val, b"cn=later");
    assert_eq!(
        later.ctrls,
        Some(vec![Ctl { oid: "1.3.6.1.4.1.99999.7".into(), crit: true, val: Some(b"val".to_vec()) }]),
        "C02 demands: controls set on a handle ride on exactly the next operation invoked on it. \
         With the result set delivered in {} page(s), the operation invoked next on the stream's handle \
         was written with controls {:?} - the controls set on the handle were attached to no request at all \
         (the page requests carried {:?})",
        npages,
        later.ctrls,
        reqs[..npages].iter().map(oids).collect::<Vec<_>>()
    );
    assert_eq!(
        sopts(later),
        (77, 0, true, 0),
        "C02 demands: search options set on a handle apply to exactly the next operation invoked on it. \
         With {} page(s) the next Search on the handle was written with (sizeLimit, timeLimit, typesOnly, deref) = {:?}",
        npages,
        sopts(later)
    );
}

#[tokio::test(flavor = "multi_thread", worker_threads = 2)]
async fn modifiers_set_on_stream_handle_are_lost_when_paged_search_changes_page() {
    tokio::time::timeout(GUARD, async {
        // Control run: the server delivers everything in one page. The library does what the
        // property demands, so the expectation below is not an invention of this test.
        let one = run(1).await;
        check(1, &one);
        // Same calls, but the server splits the result set into two pages.
        let two = run(2).await;
        check(2, &two);
    })
    .await
    .expect("hang guard");
}
