// C13 - "Completed operations leave nothing behind"
//
// Demonstration: a peer which keeps the connection open but stops READING (a hung or
// SIGSTOPped server, a closed receive window) wedges the connection task inside
// `self.stream.send(..).await` (src/conn.rs, LdapConnAsync::turn, the `op_tuple` branch of the
// select!). That await sits inside the branch handler, so while it is pending none of the other
// branches run: ID-scrub requests of timed-out callers, Abandon requests, queued operations.
//
// From then on every operation issued with `with_timeout()` - the library's own defence against
// an unresponsive server, documented as "the connection remains usable" - returns
// `LdapError::Timeout` to its caller and is over as far as the caller is concerned, but
//   * its message ID stays reserved in the shared ID table for ever,
//   * its request (and its scrub request) stays queued in the unbounded channels,
// so the reserved-ID set and the queues grow by one per operation performed, without bound,
// and Abandon neither reaches the wire nor releases a caller waiting on the abandoned operation.
//
// The reserved IDs are observed through the public `Debug` impl of `Ldap` (it prints the shared
// ID table); nothing under cfg(ldap3_verif) is used.
//
// A control test runs the very same history against a peer which reads every request but never
// answers: there all IDs are released as the property demands, which shows that the assertion
// is satisfiable and that it is the stalled send, not the timeouts, that breaks it.

use std::collections::HashSet;
use std::path::PathBuf;
use std::time::Duration;

use ldap3::{Ldap, LdapConnAsync, LdapError};
use tokio::io::AsyncReadExt;
use tokio::net::{UnixListener, UnixStream};

const BIG: usize = 8 << 20; // far above the buffer of a Unix stream socket (about 200 KiB)
const OP_TIMEOUT: Duration = Duration::from_millis(25);
const SETTLE: Duration = Duration::from_millis(700);

/// The message IDs currently reserved on the connection, read from `{:?}` of the handle:
/// `msgmap: Mutex { data: (<last id>, {<reserved ids>}), .. }`.
fn reserved_ids(ldap: &Ldap) -> Vec<i32> {
    let s = format!("{:?}", ldap);
    let key = "msgmap: Mutex { data: (";
    let start = s.find(key).expect("msgmap in the Debug output of Ldap") + key.len();
    let rest = &s[start..];
    let open = rest.find('{').expect("id set");
    let close = rest.find('}').expect("id set end");
    let mut v: Vec<i32> = rest[open + 1..close]
        .split(',')
        .map(str::trim)
        .filter(|x| !x.is_empty())
        .map(|x| x.parse().expect("id"))
        .collect();
    v.sort();
    v
}

fn sock_path(tag: &str) -> PathBuf {
    let p = std::env::temp_dir().join(format!("hunt-h27-{}-{}.sock", tag, std::process::id()));
    let _ = std::fs::remove_file(&p);
    p
}

async fn connect(tag: &str) -> (Ldap, UnixStream, PathBuf) {
    let path = sock_path(tag);
    let listener = UnixListener::bind(&path).unwrap();
    let url = format!("ldapi://{}", path.to_str().unwrap().replace('/', "%2F"));
    let (conn, ldap) = LdapConnAsync::new(&url).await.expect("connect");
    let (peer, _) = listener.accept().await.unwrap();
    ldap3::drive!(conn);
    (ldap, peer, path)
}

fn is_timeout<T>(r: &Result<T, LdapError>) -> bool {
    matches!(r, Err(LdapError::Timeout { .. }))
}

/// The history: one Add with a big attribute value (think jpegPhoto, a CRL, a bulk load), then
/// `n` small Compares, all with a timeout, all timing out because the peer never answers.
/// Returns the reserved IDs seen after the first half and after the whole history.
async fn history(ldap: &mut Ldap, n: usize) -> (Vec<i32>, Vec<i32>) {
    let val: HashSet<Vec<u8>> = [vec![0x55u8; BIG]].into_iter().collect();
    let r = ldap
        .with_timeout(Duration::from_millis(300))
        .add("cn=big,dc=example,dc=org", vec![(b"jpegPhoto".to_vec(), val)])
        .await;
    assert!(is_timeout(&r), "the Add is expected to time out, got {:?}", r);
    let mut halfway = vec![];
    for i in 0..n {
        let r = ldap
            .with_timeout(OP_TIMEOUT)
            .compare("cn=x,dc=example,dc=org", "cn", "x")
            .await;
        assert!(is_timeout(&r), "Compare #{} is expected to time out, got {:?}", i, r);
        if i + 1 == n / 2 {
            tokio::time::sleep(SETTLE).await;
            halfway = reserved_ids(ldap);
        }
    }
    tokio::time::sleep(SETTLE).await;
    (halfway, reserved_ids(ldap))
}

/// Control: the peer reads everything and answers nothing. Every caller times out, and every
/// ID is released - the property holds.
#[tokio::test]
async fn control_peer_reads_but_never_answers_ids_are_released() {
    let (mut ldap, mut peer, path) = connect("ctl").await;
    let reader = tokio::spawn(async move {
        let mut buf = vec![0u8; 1 << 16];
        while let Ok(n) = peer.read(&mut buf).await {
            if n == 0 {
                break;
            }
        }
    });
    let (halfway, end) = history(&mut ldap, 40).await;
    assert_eq!(halfway, Vec::<i32>::new(), "control: IDs reserved half-way");
    assert_eq!(end, Vec::<i32>::new(), "control: IDs reserved at the end");
    drop(ldap);
    let _ = reader.await;
    let _ = std::fs::remove_file(path);
}

/// The defect: the peer keeps the connection open but does not read.
#[tokio::test]
async fn stalled_peer_timed_out_operations_keep_their_ids_for_ever() {
    let (mut ldap, peer, path) = connect("stall").await;
    // `peer` stays open and is never read from.
    let (halfway, end) = history(&mut ldap, 40).await;

    let mut violations = vec![];
    if !end.is_empty() {
        violations.push(format!(
            "C13 demands that once no operation is outstanding (all 41 calls have returned \
             LdapError::Timeout to their callers, and {:?} more have passed) no message ID remains \
             reserved and resource use does not grow with the number of operations performed; \
             instead {} IDs were still reserved after 21 operations and {} after 41: {:?} \
             (one more per operation, and each of them also has its request and its scrub \
             request sitting in the connection's unbounded queues)",
            SETTLE,
            halfway.len(),
            end.len(),
            end
        ));
    }

    // Abandon: it must send an AbandonRequest, release a caller still waiting on the operation
    // with an error, and release the ID. Here the waiter is never released.
    let mut l2 = ldap.clone();
    let mut waiter =
        tokio::spawn(async move { l2.compare("cn=y,dc=example,dc=org", "cn", "y").await });
    tokio::time::sleep(Duration::from_millis(100)).await;
    let waiter_id = *reserved_ids(&ldap).last().expect("the waiter's id");
    let ab = ldap
        .with_timeout(Duration::from_millis(300))
        .abandon(waiter_id)
        .await;
    let released = tokio::time::timeout(SETTLE, &mut waiter).await.is_ok();
    if !released {
        violations.push(format!(
            "C13 demands that Abandon releases a caller still waiting on the abandoned operation \
             with an error and releases its ID; instead abandon({}) returned {:?}, the caller of \
             operation {} is still waiting {:?} later, and the reserved IDs are now {:?}",
            waiter_id,
            ab.map_err(|e| e.to_string()),
            waiter_id,
            SETTLE,
            reserved_ids(&ldap)
        ));
    }
    waiter.abort();
    drop(peer);
    let _ = std::fs::remove_file(path);
    assert!(violations.is_empty(), "\n{}", violations.join("\n"));
}
