// Exploration harness for C13 hypotheses (scripted in-process server).
#![allow(dead_code)]

use std::cell::RefCell;
use std::time::Duration;

use ldap3::adapters::{Adapter, EntriesOnly, PagedResults};
use ldap3::exop::WhoAmI;
use ldap3::{Ldap, LdapConnAsync, Scope};
use tokio::io::{AsyncReadExt, AsyncWriteExt};
use tokio::net::{TcpListener, TcpStream};

// ---------- log capture (per thread; tests use the current-thread runtime) ----------
thread_local! {
    static LOGS: RefCell<Vec<String>> = RefCell::new(Vec::new());
}
struct Cap;
impl ldap3::log::Log for Cap {
    fn enabled(&self, _: &ldap3::log::Metadata) -> bool {
        true
    }
    fn log(&self, r: &ldap3::log::Record) {
        LOGS.with(|l| l.borrow_mut().push(format!("{}", r.args())));
    }
    fn flush(&self) {}
}
static CAP: Cap = Cap;
fn init_log() {
    let _ = ldap3::log::set_logger(&CAP);
    ldap3::log::set_max_level(ldap3::log::LevelFilter::Trace);
    LOGS.with(|l| l.borrow_mut().clear());
}
fn logs() -> Vec<String> {
    LOGS.with(|l| l.borrow().clone())
}

// ---------- observation of the id table through the public Debug impl ----------
fn reserved_ids(ldap: &Ldap) -> Vec<i32> {
    let s = format!("{:?}", ldap);
    let start = s.find("msgmap: Mutex { data: (").expect("msgmap in Debug") + 23;
    let rest = &s[start..];
    let open = rest.find('{').unwrap();
    let close = rest.find('}').unwrap();
    let inner = &rest[open + 1..close];
    let mut v: Vec<i32> = inner
        .split(',')
        .map(|x| x.trim())
        .filter(|x| !x.is_empty())
        .map(|x| x.parse().unwrap())
        .collect();
    v.sort();
    v
}

// ---------- BER helpers ----------
fn blen(n: usize) -> Vec<u8> {
    if n < 128 {
        vec![n as u8]
    } else if n < 256 {
        vec![0x81, n as u8]
    } else {
        vec![0x82, (n >> 8) as u8, n as u8]
    }
}
fn tlv(tag: u8, c: &[u8]) -> Vec<u8> {
    let mut v = vec![tag];
    v.extend(blen(c.len()));
    v.extend_from_slice(c);
    v
}
fn int_c(v: i64) -> Vec<u8> {
    let b = v.to_be_bytes();
    let mut s = 0;
    while s < 7 && ((b[s] == 0 && b[s + 1] < 0x80) || (b[s] == 0xff && b[s + 1] >= 0x80)) {
        s += 1;
    }
    b[s..].to_vec()
}
fn msg(id: i32, op: Vec<u8>, ctrls: Option<Vec<u8>>) -> Vec<u8> {
    let mut c = tlv(0x02, &int_c(id as i64));
    c.extend(op);
    if let Some(ct) = ctrls {
        c.extend(tlv(0xa0, &ct));
    }
    tlv(0x30, &c)
}
fn result(tag: u8, rc: u8) -> Vec<u8> {
    let mut c = tlv(0x0a, &[rc]);
    c.extend(tlv(0x04, b""));
    c.extend(tlv(0x04, b""));
    tlv(tag, &c)
}
fn entry(dn: &str) -> Vec<u8> {
    let mut c = tlv(0x04, dn.as_bytes());
    c.extend(tlv(0x30, &[]));
    tlv(0x64, &c)
}
fn paged_ctrl(cookie: &[u8]) -> Vec<u8> {
    let mut v = tlv(0x02, &[0]);
    v.extend(tlv(0x04, cookie));
    let val = tlv(0x30, &v);
    let mut c = tlv(0x04, b"1.2.840.113556.1.4.319");
    c.extend(tlv(0x04, &val));
    tlv(0x30, &c)
}

#[derive(Debug)]
struct Req {
    id: i32,
    tag: u8,
    body: Vec<u8>,
}

async fn read_req(s: &mut TcpStream) -> Option<Req> {
    let mut h = [0u8; 2];
    s.read_exact(&mut h).await.ok()?;
    assert_eq!(h[0], 0x30);
    let n = if h[1] < 128 {
        h[1] as usize
    } else {
        let k = (h[1] & 0x7f) as usize;
        let mut b = vec![0u8; k];
        s.read_exact(&mut b).await.ok()?;
        b.iter().fold(0usize, |a, x| (a << 8) | *x as usize)
    };
    let mut b = vec![0u8; n];
    s.read_exact(&mut b).await.ok()?;
    assert_eq!(b[0], 0x02);
    let il = b[1] as usize;
    let id = b[2..2 + il].iter().fold(0i64, |a, x| (a << 8) | *x as i64) as i32;
    let tag = b[2 + il];
    Some(Req {
        id,
        tag,
        body: b[2 + il..].to_vec(),
    })
}

async fn setup() -> (Ldap, TcpStream) {
    init_log();
    let l = TcpListener::bind("127.0.0.1:0").await.unwrap();
    let port = l.local_addr().unwrap().port();
    let (conn, ldap) = LdapConnAsync::new(&format!("ldap://127.0.0.1:{}", port))
        .await
        .unwrap();
    let (sock, _) = l.accept().await.unwrap();
    ldap3::drive!(conn);
    (ldap, sock)
}

/// Round trip: when it returns, the driver has handled everything the server wrote before.
async fn sync_point(ldap: &mut Ldap, sock: &mut TcpStream) {
    let mut l2 = ldap.clone();
    let h = tokio::spawn(async move { l2.extended(WhoAmI).await });
    let r = read_req(sock).await.unwrap();
    assert_eq!(r.tag, 0x77);
    sock.write_all(&msg(r.id, result(0x78, 0), None)).await.unwrap();
    h.await.unwrap().unwrap();
    // let the driver run its pending turns
    for _ in 0..20 {
        tokio::task::yield_now().await;
    }
}

/// Does the connection still hold routing state for `id`? The server sends a message with
/// that id; a driver without state for it logs "unmatched id".
async fn has_routing(ldap: &mut Ldap, sock: &mut TcpStream, id: i32) -> bool {
    let before = logs().len();
    sock.write_all(&msg(id, entry("cn=probe"), None)).await.unwrap();
    sync_point(ldap, sock).await;
    let new = &logs()[before..];
    !new.iter().any(|m| m == &format!("unmatched id: {}", id))
}

const T: Duration = Duration::from_millis(60);

// H1: a mixed history of single operations.
#[tokio::test]
async fn h1_single_ops_history() {
    let (mut ldap, mut sock) = setup().await;
    // completed
    let mut l = ldap.clone();
    let h = tokio::spawn(async move { l.simple_bind("cn=x", "y").await });
    let r = read_req(&mut sock).await.unwrap();
    sock.write_all(&msg(r.id, result(0x61, 0), None)).await.unwrap();
    h.await.unwrap().unwrap();
    // failed
    let mut l = ldap.clone();
    let h = tokio::spawn(async move { l.delete("cn=x").await });
    let r = read_req(&mut sock).await.unwrap();
    sock.write_all(&msg(r.id, result(0x6b, 32), None)).await.unwrap();
    assert_eq!(h.await.unwrap().unwrap().rc, 32);
    // timed out, then abandoned, then answered late
    let res = ldap.with_timeout(T).compare("cn=x", "a", "b").await;
    assert!(res.is_err());
    let tid = ldap.last_id();
    let r = read_req(&mut sock).await.unwrap();
    assert_eq!(r.id, tid);
    ldap.abandon(tid).await.unwrap();
    let r = read_req(&mut sock).await.unwrap();
    assert_eq!(r.tag, 0x50);
    assert_eq!(r.body[2..], int_c(tid as i64)[..]);
    sock.write_all(&msg(tid, result(0x6f, 6), None)).await.unwrap();
    // in flight (cancelled future), intermediate response, then abandoned
    {
        let f = ldap.extended(WhoAmI);
        let _ = tokio::time::timeout(T, f).await;
    }
    let cid = ldap.last_id();
    let r = read_req(&mut sock).await.unwrap();
    assert_eq!(r.id, cid);
    sock.write_all(&msg(cid, tlv(0x79, &[]), None)).await.unwrap();
    sync_point(&mut ldap, &mut sock).await;
    assert_eq!(reserved_ids(&ldap), vec![cid]);
    ldap.abandon(cid).await.unwrap();
    let _ = read_req(&mut sock).await.unwrap();
    // abandon of a finished operation
    ldap.abandon(1).await.unwrap();
    let _ = read_req(&mut sock).await.unwrap();
    // unsolicited
    sock.write_all(&msg(0, result(0x78, 52), None)).await.unwrap();
    sock.write_all(&msg(4242, result(0x78, 52), None)).await.unwrap();
    sync_point(&mut ldap, &mut sock).await;
    assert_eq!(reserved_ids(&ldap), Vec::<i32>::new());
    for id in [1, 2, tid, cid] {
        assert!(!has_routing(&mut ldap, &mut sock, id).await, "routing for {}", id);
    }
}

// H2: an in-flight operation abandoned from another handle releases its caller.
#[tokio::test]
async fn h2_abandon_in_flight_releases_waiter() {
    let (mut ldap, mut sock) = setup().await;
    let mut l = ldap.clone();
    let h = tokio::spawn(async move { l.compare("cn=x", "a", "b").await });
    let r = read_req(&mut sock).await.unwrap();
    ldap.abandon(r.id).await.unwrap();
    let a = read_req(&mut sock).await.unwrap();
    assert_eq!(a.tag, 0x50);
    let res = tokio::time::timeout(Duration::from_secs(5), h).await.expect("waiter released");
    assert!(res.unwrap().is_err());
    sync_point(&mut ldap, &mut sock).await;
    assert_eq!(reserved_ids(&ldap), Vec::<i32>::new());
    assert!(!has_routing(&mut ldap, &mut sock, r.id).await);
}

// H3: direct streams: read to the end, finished early, timed out, abandoned while waiting.
#[tokio::test]
async fn h3_direct_streams() {
    let (mut ldap, mut sock) = setup().await;
    // to the end
    let mut st = {
        let mut l = ldap.clone();
        let h = tokio::spawn(async move {
            l.streaming_search("dc=x", Scope::Subtree, "(a=b)", vec!["a"]).await
        });
        let r = read_req(&mut sock).await.unwrap();
        sock.write_all(&msg(r.id, entry("cn=1"), None)).await.unwrap();
        sock.write_all(&msg(r.id, result(0x65, 0), None)).await.unwrap();
        h.await.unwrap().unwrap()
    };
    let id1 = st.ldap_handle().last_id();
    assert!(st.next().await.unwrap().is_some());
    assert!(st.next().await.unwrap().is_none());
    assert_eq!(st.finish().await.rc, 0);
    // early
    let mut st = {
        let mut l = ldap.clone();
        let h = tokio::spawn(async move {
            l.streaming_search("dc=x", Scope::Subtree, "(a=b)", vec!["a"]).await
        });
        let r = read_req(&mut sock).await.unwrap();
        sock.write_all(&msg(r.id, entry("cn=1"), None)).await.unwrap();
        h.await.unwrap().unwrap()
    };
    let id2 = st.ldap_handle().last_id();
    assert!(st.next().await.unwrap().is_some());
    assert_eq!(st.finish().await.rc, 88);
    st.ldap_handle().abandon(id2).await.unwrap();
    let _ = read_req(&mut sock).await.unwrap();
    sock.write_all(&msg(id2, entry("cn=late"), None)).await.unwrap();
    // timed out
    let mut st = {
        let mut l = ldap.clone();
        let h = tokio::spawn(async move {
            l.with_timeout(T)
                .streaming_search("dc=x", Scope::Subtree, "(a=b)", vec!["a"])
                .await
        });
        let _r = read_req(&mut sock).await.unwrap();
        h.await.unwrap().unwrap()
    };
    let id3 = st.ldap_handle().last_id();
    assert!(st.next().await.is_err());
    assert_eq!(st.finish().await.rc, 88);
    // abandoned while a caller waits in next()
    let mut st = {
        let mut l = ldap.clone();
        let h = tokio::spawn(async move {
            l.streaming_search("dc=x", Scope::Subtree, "(a=b)", vec!["a"]).await
        });
        let _r = read_req(&mut sock).await.unwrap();
        h.await.unwrap().unwrap()
    };
    let id4 = st.ldap_handle().last_id();
    let h = tokio::spawn(async move {
        let r = st.next().await;
        (r.is_err(), st)
    });
    tokio::time::sleep(T).await;
    ldap.abandon(id4).await.unwrap();
    let _ = read_req(&mut sock).await.unwrap();
    let (was_err, mut st) = tokio::time::timeout(Duration::from_secs(5), h)
        .await
        .expect("waiter released")
        .unwrap();
    assert!(was_err);
    st.finish().await;
    sync_point(&mut ldap, &mut sock).await;
    assert_eq!(reserved_ids(&ldap), Vec::<i32>::new());
    for id in [id1, id2, id3, id4] {
        assert!(!has_routing(&mut ldap, &mut sock, id).await, "routing for {}", id);
    }
}

async fn start_adapted(
    ldap: &Ldap,
    sock: &mut TcpStream,
    timeout: Option<Duration>,
) -> (ldap3::SearchStream<'static, &'static str, Vec<&'static str>>, i32) {
    let mut l = ldap.clone();
    let h = tokio::spawn(async move {
        let adapters: Vec<Box<dyn Adapter<_, _>>> = vec![
            Box::new(EntriesOnly::new()),
            Box::new(PagedResults::new(2)),
        ];
        if let Some(t) = timeout {
            l.with_timeout(t);
        }
        l.streaming_search_with(adapters, "dc=x", Scope::Subtree, "(a=b)", vec!["a"])
            .await
    });
    let r = read_req(sock).await.unwrap();
    assert_eq!(r.tag, 0x63);
    (h.await.unwrap().unwrap(), r.id)
}

// H4: adapted (EntriesOnly + PagedResults) streams across pages.
#[tokio::test]
async fn h4_paged_streams() {
    let (mut ldap, mut sock) = setup().await;
    // two pages read to the end
    let (mut st, p1) = start_adapted(&ldap, &mut sock, None).await;
    sock.write_all(&msg(p1, entry("cn=1"), None)).await.unwrap();
    sock.write_all(&msg(p1, result(0x65, 0), Some(paged_ctrl(b"ck")))).await.unwrap();
    assert!(st.next().await.unwrap().is_some());
    let h = tokio::spawn(async move {
        let r = st.next().await;
        (r, st)
    });
    let r2 = read_req(&mut sock).await.unwrap();
    let p2 = r2.id;
    sock.write_all(&msg(p2, entry("cn=2"), None)).await.unwrap();
    sock.write_all(&msg(p2, result(0x65, 0), Some(paged_ctrl(b"")))).await.unwrap();
    let (r, mut st) = h.await.unwrap();
    assert!(r.unwrap().is_some());
    assert!(st.next().await.unwrap().is_none());
    assert_eq!(st.finish().await.rc, 0);

    // finished early on the second page, then abandoned
    let (mut st, q1) = start_adapted(&ldap, &mut sock, None).await;
    sock.write_all(&msg(q1, result(0x65, 0), Some(paged_ctrl(b"ck")))).await.unwrap();
    let h = tokio::spawn(async move {
        let r = st.next().await;
        (r, st)
    });
    let r2 = read_req(&mut sock).await.unwrap();
    let q2 = r2.id;
    sock.write_all(&msg(q2, entry("cn=2"), None)).await.unwrap();
    let (r, mut st) = h.await.unwrap();
    assert!(r.unwrap().is_some());
    assert_eq!(st.ldap_handle().last_id(), q2);
    assert_eq!(st.finish().await.rc, 88);
    st.ldap_handle().abandon(q2).await.unwrap();
    let a = read_req(&mut sock).await.unwrap();
    assert_eq!(a.tag, 0x50);

    // timed out on the second page
    let (mut st, s1) = start_adapted(&ldap, &mut sock, Some(T)).await;
    sock.write_all(&msg(s1, result(0x65, 0), Some(paged_ctrl(b"ck")))).await.unwrap();
    let h = tokio::spawn(async move {
        let r = st.next().await;
        (r, st)
    });
    let r2 = read_req(&mut sock).await.unwrap();
    let s2 = r2.id;
    let (r, mut st) = h.await.unwrap();
    assert!(r.is_err());
    assert_eq!(st.finish().await.rc, 88);

    // abandoned on the second page while a caller waits
    let (mut st, u1) = start_adapted(&ldap, &mut sock, None).await;
    sock.write_all(&msg(u1, result(0x65, 0), Some(paged_ctrl(b"ck")))).await.unwrap();
    let h = tokio::spawn(async move {
        let r = st.next().await;
        (r.is_err(), st)
    });
    let r2 = read_req(&mut sock).await.unwrap();
    let u2 = r2.id;
    tokio::time::sleep(T).await;
    ldap.abandon(u2).await.unwrap();
    let _ = read_req(&mut sock).await.unwrap();
    let (was_err, mut st) = tokio::time::timeout(Duration::from_secs(5), h)
        .await
        .expect("waiter released")
        .unwrap();
    assert!(was_err);
    st.finish().await;

    sync_point(&mut ldap, &mut sock).await;
    assert_eq!(reserved_ids(&ldap), Vec::<i32>::new());
    for id in [p1, p2, q1, q2, s1, s2, u1, u2] {
        assert!(!has_routing(&mut ldap, &mut sock, id).await, "routing for {}", id);
    }
}

// sanity of the routing probe: an active search is seen as routing state
#[tokio::test]
async fn h5_probe_sanity() {
    let (mut ldap, mut sock) = setup().await;
    let mut l = ldap.clone();
    let h = tokio::spawn(async move {
        l.streaming_search("dc=x", Scope::Subtree, "(a=b)", vec!["a"]).await
    });
    let r = read_req(&mut sock).await.unwrap();
    let mut st = h.await.unwrap().unwrap();
    assert!(has_routing(&mut ldap, &mut sock, r.id).await);
    assert_eq!(reserved_ids(&ldap), vec![r.id]);
    st.finish().await;
    sync_point(&mut ldap, &mut sock).await;
    assert!(!has_routing(&mut ldap, &mut sock, r.id).await);
    assert_eq!(reserved_ids(&ldap), Vec::<i32>::new());
}

// H6: search() (non-streaming) with a timeout, and a sync-like sequence: timeouts in the middle
// of the entries, a late Done, then the same handle used again.
#[tokio::test]
async fn h6_search_timeout_then_reuse() {
    let (mut ldap, mut sock) = setup().await;
    let mut l = ldap.clone();
    let h = tokio::spawn(async move {
        let r = l.with_timeout(T).search("dc=x", Scope::Subtree, "(a=b)", vec!["a"]).await;
        (r.is_err(), l)
    });
    let r = read_req(&mut sock).await.unwrap();
    sock.write_all(&msg(r.id, entry("cn=1"), None)).await.unwrap();
    let (e, mut l) = h.await.unwrap();
    assert!(e);
    sock.write_all(&msg(r.id, entry("cn=2"), None)).await.unwrap();
    sock.write_all(&msg(r.id, result(0x65, 0), None)).await.unwrap();
    sync_point(&mut l, &mut sock).await;
    assert_eq!(reserved_ids(&ldap), Vec::<i32>::new());
    assert!(!has_routing(&mut ldap, &mut sock, r.id).await);
}

// H7: the peer closes right after a request was written, with other operations queued and
// timed out: nothing stays reserved once the driver has ended.
#[tokio::test]
async fn h7_peer_closes_midway() {
    let (mut ldap, mut sock) = setup().await;
    let mut l = ldap.clone();
    let h = tokio::spawn(async move { l.compare("cn=x", "a", "b").await });
    let mut l3 = ldap.clone();
    let h3 = tokio::spawn(async move {
        l3.streaming_search("dc=x", Scope::Subtree, "(a=b)", vec!["a"]).await
    });
    let _ = read_req(&mut sock).await.unwrap();
    let _ = read_req(&mut sock).await.unwrap();
    let mut st = h3.await.unwrap().unwrap();
    drop(sock);
    assert!(h.await.unwrap().is_err());
    assert!(st.next().await.is_err());
    st.finish().await;
    let r = ldap.with_timeout(T).simple_bind("a", "b").await;
    assert!(r.is_err());
    let r = ldap.abandon(1).await;
    assert!(r.is_err());
    assert_eq!(reserved_ids(&ldap), Vec::<i32>::new());
    assert!(ldap.is_closed());
}

// H8: a peer which stalls and later resumes reading: once the driver gets going again all the
// timed-out operations are scrubbed (the stale requests are written to the peer, though).
#[tokio::test]
async fn h8_stall_then_resume() {
    use std::collections::HashSet;
    use tokio::net::UnixListener;
    init_log();
    let path = std::env::temp_dir().join(format!("hunt-h27-probe-{}.sock", std::process::id()));
    let _ = std::fs::remove_file(&path);
    let listener = UnixListener::bind(&path).unwrap();
    let url = format!("ldapi://{}", path.to_str().unwrap().replace('/', "%2F"));
    let (conn, mut ldap) = LdapConnAsync::new(&url).await.unwrap();
    let (mut peer, _) = listener.accept().await.unwrap();
    ldap3::drive!(conn);
    let val: HashSet<Vec<u8>> = [vec![0x55u8; 8 << 20]].into_iter().collect();
    let r = ldap
        .with_timeout(Duration::from_millis(200))
        .add("cn=big", vec![(b"jpegPhoto".to_vec(), val)])
        .await;
    assert!(r.is_err());
    for _ in 0..10 {
        assert!(ldap.with_timeout(T).compare("cn=x", "a", "b").await.is_err());
    }
    assert_eq!(reserved_ids(&ldap).len(), 11);
    let reader = tokio::spawn(async move {
        let mut buf = vec![0u8; 1 << 16];
        let mut total = 0usize;
        loop {
            match tokio::time::timeout(Duration::from_millis(500), peer.read(&mut buf)).await {
                Ok(Ok(n)) if n > 0 => total += n,
                _ => break,
            }
        }
        (total, peer)
    });
    let (total, _peer) = reader.await.unwrap();
    assert!(total > 8 << 20);
    assert_eq!(reserved_ids(&ldap), Vec::<i32>::new());
    let _ = std::fs::remove_file(path);
}
