// Exploratory checks for the review (not the deliverable).
#![allow(dead_code)]

use std::time::Duration;

use async_trait::async_trait;
use ldap3::adapters::{Adapter, EntriesOnly, PagedResults, SoloMarker};
use ldap3::result::{LdapError, LdapResult, Result};
use ldap3::{Ldap, LdapConnAsync, LdapConnSettings, ResultEntry, Scope, SearchStream};
use tokio::io::{AsyncReadExt, AsyncWriteExt};
use tokio::net::{TcpListener, TcpStream};

// ---------- BER helpers ----------
fn blen(n: usize) -> Vec<u8> {
    if n < 128 {
        vec![n as u8]
    } else if n < 256 {
        vec![0x81, n as u8]
    } else {
        vec![0x82, (n >> 8) as u8, n as u8]
    }
}
fn tlv(tag: u8, content: &[u8]) -> Vec<u8> {
    let mut v = vec![tag];
    v.extend(blen(content.len()));
    v.extend_from_slice(content);
    v
}
fn int(n: u32) -> Vec<u8> {
    let mut b = n.to_be_bytes().to_vec();
    while b.len() > 1 && b[0] == 0 && b[1] & 0x80 == 0 {
        b.remove(0);
    }
    if b[0] & 0x80 != 0 {
        b.insert(0, 0);
    }
    tlv(0x02, &b)
}
fn octets(s: &[u8]) -> Vec<u8> {
    tlv(0x04, s)
}
fn msg(id: u32, op: Vec<u8>, ctrls: Option<Vec<u8>>) -> Vec<u8> {
    let mut c = int(id);
    c.extend(op);
    if let Some(ctrls) = ctrls {
        c.extend(tlv(0xa0, &ctrls));
    }
    tlv(0x30, &c)
}
fn result_op(tag: u8, rc: u8) -> Vec<u8> {
    let mut c = tlv(0x0a, &[rc]);
    c.extend(octets(b""));
    c.extend(octets(b""));
    tlv(tag, &c)
}
fn entry_op(dn: &str) -> Vec<u8> {
    let mut c = octets(dn.as_bytes());
    c.extend(tlv(0x30, &[]));
    tlv(0x64, &c)
}
fn paged_ctrl(cookie: &[u8]) -> Vec<u8> {
    let mut v = int(0);
    v.extend(octets(cookie));
    let val = tlv(0x30, &v);
    let mut c = octets(b"1.2.840.113556.1.4.319");
    c.extend(octets(&val));
    tlv(0x30, &c)
}

async fn read_msg(s: &mut TcpStream) -> Option<(u32, u8, Vec<u8>)> {
    let mut hdr = [0u8; 2];
    s.read_exact(&mut hdr).await.ok()?;
    let mut raw = hdr.to_vec();
    let len = if hdr[1] & 0x80 == 0 {
        hdr[1] as usize
    } else {
        let n = (hdr[1] & 0x7f) as usize;
        let mut lb = vec![0u8; n];
        s.read_exact(&mut lb).await.ok()?;
        raw.extend(&lb);
        lb.iter().fold(0usize, |a, b| (a << 8) | *b as usize)
    };
    let mut body = vec![0u8; len];
    s.read_exact(&mut body).await.ok()?;
    raw.extend(&body);
    assert_eq!(body[0], 0x02);
    let il = body[1] as usize;
    let id = body[2..2 + il].iter().fold(0u32, |a, b| (a << 8) | *b as u32);
    let op = body[2 + il];
    Some((id, op, raw))
}

fn ids_in_use(ldap: &Ldap) -> String {
    let d = format!("{:?}", ldap);
    let start = d.find("data: (").expect("debug format") + "data: (".len();
    let rest = &d[start..];
    let open = rest.find('{').unwrap();
    let close = rest.find('}').unwrap();
    rest[open..=close].to_string()
}

// ---------- a user adapter which fails on its own ----------
#[derive(Clone, Debug)]
struct Picky;
impl SoloMarker for Picky {}

#[async_trait]
impl<'a, S, A> Adapter<'a, S, A> for Picky
where
    S: AsRef<str> + Send + Sync + 'a,
    A: AsRef<[S]> + Send + Sync + 'a,
{
    async fn start(
        &mut self,
        stream: &mut SearchStream<'a, S, A>,
        base: &str,
        scope: Scope,
        filter: &str,
        attrs: A,
    ) -> Result<()> {
        stream.start(base, scope, filter, attrs).await
    }
    async fn next(&mut self, stream: &mut SearchStream<'a, S, A>) -> Result<Option<ResultEntry>> {
        match stream.next().await? {
            Some(re) => {
                let se = ldap3::SearchEntry::construct(re.clone());
                if se.dn.contains("bad") {
                    return Err(LdapError::AdapterInit(String::from("unacceptable entry")));
                }
                Ok(Some(re))
            }
            None => Ok(None),
        }
    }
    async fn finish(&mut self, stream: &mut SearchStream<'a, S, A>) -> LdapResult {
        stream.finish().await
    }
}

#[tokio::test]
async fn t1_user_adapter_error_then_finish() {
    let l = TcpListener::bind("127.0.0.1:0").await.unwrap();
    let port = l.local_addr().unwrap().port();
    tokio::spawn(async move {
        let (mut s, _) = l.accept().await.unwrap();
        while let Some((id, op, _)) = read_msg(&mut s).await {
            match op {
                0x63 => {
                    s.write_all(&msg(id, entry_op("cn=good"), None)).await.unwrap();
                    s.write_all(&msg(id, entry_op("cn=bad"), None)).await.unwrap();
                    // the search stays open
                }
                0x6e => {
                    s.write_all(&msg(id, result_op(0x6f, 6), None)).await.unwrap();
                }
                _ => {}
            }
        }
    });
    let (conn, mut ldap) = LdapConnAsync::new(&format!("ldap://127.0.0.1:{}", port))
        .await
        .unwrap();
    ldap3::drive!(conn);
    let mut stream = ldap
        .streaming_search_with(Picky, "dc=x", Scope::Subtree, "(objectClass=*)", vec!["cn"])
        .await
        .unwrap();
    assert!(stream.next().await.unwrap().is_some());
    assert!(stream.next().await.is_err());
    let res = stream.finish().await;
    assert_eq!(res.rc, 88);
    for _ in 0..5 {
        ldap.compare("cn=x", "cn", "x").await.unwrap();
    }
    let ids = ids_in_use(&ldap);
    println!("ids in use: {}", ids);
    assert_eq!(ids, "{}");
}

#[tokio::test]
async fn t2_starttls_server_closes_at_once() {
    let l = TcpListener::bind("127.0.0.1:0").await.unwrap();
    let port = l.local_addr().unwrap().port();
    tokio::spawn(async move {
        let (s, _) = l.accept().await.unwrap();
        drop(s);
    });
    let settings = LdapConnSettings::new().set_starttls(true);
    let r = tokio::time::timeout(
        Duration::from_secs(5),
        LdapConnAsync::with_settings(settings, &format!("ldap://127.0.0.1:{}", port)),
    )
    .await;
    assert!(r.expect("must not hang").is_err());
}

#[tokio::test]
async fn t2b_starttls_server_talks_first_then_closes() {
    let l = TcpListener::bind("127.0.0.1:0").await.unwrap();
    let port = l.local_addr().unwrap().port();
    tokio::spawn(async move {
        let (mut s, _) = l.accept().await.unwrap();
        // notice of disconnection
        s.write_all(&msg(0, result_op(0x78, 52), None)).await.unwrap();
        s.shutdown().await.unwrap();
        tokio::time::sleep(Duration::from_millis(200)).await;
        drop(s);
    });
    let settings = LdapConnSettings::new().set_starttls(true);
    let r = tokio::time::timeout(
        Duration::from_secs(5),
        LdapConnAsync::with_settings(settings, &format!("ldap://127.0.0.1:{}", port)),
    )
    .await;
    assert!(r.expect("must not hang").is_err());
}

#[tokio::test]
async fn t2c_starttls_refused() {
    let l = TcpListener::bind("127.0.0.1:0").await.unwrap();
    let port = l.local_addr().unwrap().port();
    tokio::spawn(async move {
        let (mut s, _) = l.accept().await.unwrap();
        s.write_all(&msg(1, result_op(0x78, 0), None)).await.unwrap(); // early "success"
        let (id, _, _) = read_msg(&mut s).await.unwrap();
        s.write_all(&msg(id, result_op(0x78, 2), None)).await.unwrap();
        tokio::time::sleep(Duration::from_millis(500)).await;
    });
    let settings = LdapConnSettings::new().set_starttls(true);
    let r = tokio::time::timeout(
        Duration::from_secs(5),
        LdapConnAsync::with_settings(settings, &format!("ldap://127.0.0.1:{}", port)),
    )
    .await;
    let r = r.expect("must not hang");
    println!("{:?}", r.as_ref().err());
    assert!(r.is_err());
}

#[cfg(unix)]
#[tokio::test]
async fn t3_ldapi_starttls() {
    let dir = std::env::temp_dir().join(format!("wtv04-{}", std::process::id()));
    let _ = std::fs::remove_file(&dir);
    let l = tokio::net::UnixListener::bind(&dir).unwrap();
    let (tx, mut rx) = tokio::sync::mpsc::unbounded_channel();
    tokio::spawn(async move {
        if let Ok((mut s, _)) = l.accept().await {
            let mut b = [0u8; 64];
            let n = s.read(&mut b).await.unwrap_or(0);
            tx.send(n).unwrap();
        }
    });
    let path = dir.to_str().unwrap().replace('/', "%2F");
    let settings = LdapConnSettings::new().set_starttls(true);
    let r = LdapConnAsync::with_settings(settings, &format!("ldapi://{}", path)).await;
    assert!(r.is_err());
    println!("{:?}", r.err());
    assert!(rx.try_recv().is_err());
    // and without starttls it connects
    let r = LdapConnAsync::with_settings(LdapConnSettings::new(), &format!("ldapi://{}", path)).await;
    assert!(r.is_ok());
    let _ = std::fs::remove_file(&dir);
}

#[tokio::test]
async fn t4_paged_followup_fails() {
    let l = TcpListener::bind("127.0.0.1:0").await.unwrap();
    let port = l.local_addr().unwrap().port();
    tokio::spawn(async move {
        let (mut s, _) = l.accept().await.unwrap();
        let (id, op, _) = read_msg(&mut s).await.unwrap();
        assert_eq!(op, 0x63);
        s.write_all(&msg(id, entry_op("cn=a"), None)).await.unwrap();
        s.write_all(&msg(id, result_op(0x65, 0), Some(paged_ctrl(b"ck")))).await.unwrap();
        let (_id, op, _) = read_msg(&mut s).await.unwrap();
        assert_eq!(op, 0x63);
        drop(s);
    });
    let (conn, mut ldap) = LdapConnAsync::new(&format!("ldap://127.0.0.1:{}", port))
        .await
        .unwrap();
    ldap3::drive!(conn);
    let adapters: Vec<Box<dyn Adapter<_, _>>> =
        vec![Box::new(EntriesOnly::new()), Box::new(PagedResults::new(1))];
    let mut stream = ldap
        .streaming_search_with(adapters, "dc=x", Scope::Subtree, "(objectClass=*)", vec!["cn"])
        .await
        .unwrap();
    assert!(stream.next().await.unwrap().is_some());
    let e = stream.next().await;
    println!("{:?}", e);
    assert!(e.is_err());
    assert!(stream.next().await.unwrap().is_none());
    let res = stream.finish().await;
    assert_eq!(res.rc, 88);
    assert_eq!(stream.finish().await.rc, 80);
}

#[tokio::test]
async fn t5_op_through_handle_then_timeout() {
    let l = TcpListener::bind("127.0.0.1:0").await.unwrap();
    let port = l.local_addr().unwrap().port();
    tokio::spawn(async move {
        let (mut s, _) = l.accept().await.unwrap();
        while let Some((id, op, _)) = read_msg(&mut s).await {
            match op {
                0x63 => {
                    s.write_all(&msg(id, entry_op("cn=good"), None)).await.unwrap();
                }
                0x6e => {
                    s.write_all(&msg(id, result_op(0x6f, 6), None)).await.unwrap();
                }
                _ => {}
            }
        }
    });
    let (conn, mut ldap) = LdapConnAsync::new(&format!("ldap://127.0.0.1:{}", port))
        .await
        .unwrap();
    ldap3::drive!(conn);
    let mut stream = ldap
        .with_timeout(Duration::from_millis(100))
        .streaming_search("dc=x", Scope::Subtree, "(objectClass=*)", vec!["cn"])
        .await
        .unwrap();
    assert!(stream.next().await.unwrap().is_some());
    stream.ldap_handle().compare("cn=x", "cn", "x").await.unwrap();
    assert!(stream.next().await.is_err());
    let res = stream.finish().await;
    assert_eq!(res.rc, 88);
    for _ in 0..3 {
        ldap.compare("cn=x", "cn", "x").await.unwrap();
    }
    assert_eq!(ids_in_use(&ldap), "{}");
}

#[tokio::test]
async fn t6_tls_unbind_silent_peer() {
    let cert = std::fs::read(concat!(env!("CARGO_MANIFEST_DIR"), "/data/tls/cert.pem")).unwrap();
    let key = std::fs::read(concat!(env!("CARGO_MANIFEST_DIR"), "/data/tls/key.pem")).unwrap();
    let ident = native_tls::Identity::from_pkcs8(&cert, &key).unwrap();
    let acc = tokio_native_tls::TlsAcceptor::from(native_tls::TlsAcceptor::new(ident).unwrap());
    let l = TcpListener::bind("127.0.0.1:0").await.unwrap();
    let port = l.local_addr().unwrap().port();
    let (tx, mut rx) = tokio::sync::mpsc::unbounded_channel::<Vec<u8>>();
    tokio::spawn(async move {
        let (s, _) = l.accept().await.unwrap();
        let mut s = acc.accept(s).await.unwrap();
        let mut buf = vec![0u8; 1024];
        loop {
            match s.read(&mut buf).await {
                Ok(0) | Err(_) => {
                    tx.send(vec![]).unwrap();
                    break;
                }
                Ok(n) => tx.send(buf[..n].to_vec()).unwrap(),
            }
        }
        // stay silent, don't close
        tokio::time::sleep(Duration::from_secs(5)).await;
        drop(s);
    });
    let settings = LdapConnSettings::new().set_no_tls_verify(true);
    let (conn, mut ldap) =
        LdapConnAsync::with_settings(settings, &format!("ldaps://127.0.0.1:{}", port))
            .await
            .unwrap();
    let h = tokio::spawn(async move { conn.drive().await });
    let mut l2 = ldap.clone();
    let pending = tokio::spawn(async move { l2.compare("cn=x", "cn", "x").await });
    tokio::time::sleep(Duration::from_millis(100)).await;
    let r = tokio::time::timeout(Duration::from_secs(2), ldap.unbind()).await;
    assert!(r.expect("unbind must not hang").is_ok());
    let r = tokio::time::timeout(Duration::from_secs(2), pending).await;
    assert!(r.expect("pending op must fail").unwrap().is_err());
    let r = tokio::time::timeout(Duration::from_secs(2), h).await;
    println!("drive: {:?}", r);
    assert!(r.is_ok());
    // the server saw compare, unbind, and then the end of the stream
    let mut seen = vec![];
    while let Ok(Some(b)) = tokio::time::timeout(Duration::from_secs(2), rx.recv()).await {
        let end = b.is_empty();
        seen.push(b);
        if end { break; }
    }
    println!("{:?}", seen);
    assert!(seen.last().unwrap().is_empty(), "transport closed");
    assert!(ldap.compare("cn=x", "cn", "x").await.is_err());
}
