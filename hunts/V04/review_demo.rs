// Review of the repair f5e9a5a ("finish() on a search stream that has already failed does not
// ask for its message ID to be scrubbed a second time").
//
// The repair makes SearchStream::finish_inner() send the scrub request only in the Active
// state, on the assumption that a stream in the Error state has either sent the request
// already (timed-out next()) or lost its ID (closed channel). That assumption doesn't hold for
// an adapted stream: SearchStream::next() puts the stream into the Error state for ANY error
// coming out of the adapter chain, including one which an adapter raises on its own while the
// Search is still in progress on the connection. The adapter documentation names referral
// chasing ("distributed searches with referral chasing", connections "newly opened in an
// adapter") as a use of the interface, and a connection to a referred-to server which can't be
// opened is the obvious source of such an error.
//
// Before the repair, finish() on such a stream released the Search's message ID and routing
// entry (the condition was "state != Done"). Since the repair, it releases nothing: the ID stays
// reserved and the connection keeps the routing entry for as long as the server sends nothing
// more for that ID. With nothing outstanding, that contradicts
//
//   C13: "Whenever no operation is outstanding - after any history of completed, failed,
//   timed-out, abandoned or prematurely finished operations and searches - no message ID
//   remains reserved and the connection holds no routing state for past operations",
//
// and the documentation of SearchStream: "Calling finish() earlier will terminate search
// result processing in the client".
//
// The ID table is observed through the public Debug impl of Ldap, which prints the shared
// (last ID, set of IDs in use) pair.

use async_trait::async_trait;
use ldap3::adapters::{Adapter, SoloMarker};
use ldap3::result::{LdapResult, Result};
use ldap3::{parse_refs, Ldap, LdapConnAsync, ResultEntry, Scope, SearchStream};
use tokio::io::{AsyncReadExt, AsyncWriteExt};
use tokio::net::{TcpListener, TcpStream};

// ---------- minimal BER/LDAP encoding for the scripted server ----------

fn tlv(tag: u8, content: &[u8]) -> Vec<u8> {
    assert!(content.len() < 128);
    let mut v = vec![tag, content.len() as u8];
    v.extend_from_slice(content);
    v
}

fn msg(id: u8, op: Vec<u8>) -> Vec<u8> {
    let mut c = tlv(0x02, &[id]);
    c.extend(op);
    tlv(0x30, &c)
}

/// LDAPResult-shaped protocolOp with the given tag, empty matchedDN and diagnosticMessage.
fn result_op(tag: u8, rc: u8) -> Vec<u8> {
    let mut c = tlv(0x0a, &[rc]);
    c.extend(tlv(0x04, b""));
    c.extend(tlv(0x04, b""));
    tlv(tag, &c)
}

/// SearchResultEntry without attributes.
fn entry_op(dn: &str) -> Vec<u8> {
    let mut c = tlv(0x04, dn.as_bytes());
    c.extend(tlv(0x30, &[]));
    tlv(0x64, &c)
}

/// SearchResultReference with one URI.
fn reference_op(uri: &str) -> Vec<u8> {
    tlv(0x73, &tlv(0x04, uri.as_bytes()))
}

/// Read one LDAPMessage; return its message ID and the tag of its protocolOp.
async fn read_msg(s: &mut TcpStream) -> Option<(u8, u8)> {
    let mut hdr = [0u8; 2];
    s.read_exact(&mut hdr).await.ok()?;
    let len = if hdr[1] & 0x80 == 0 {
        hdr[1] as usize
    } else {
        let mut lb = vec![0u8; (hdr[1] & 0x7f) as usize];
        s.read_exact(&mut lb).await.ok()?;
        lb.iter().fold(0usize, |a, b| (a << 8) | *b as usize)
    };
    let mut body = vec![0u8; len];
    s.read_exact(&mut body).await.ok()?;
    assert_eq!((body[0], body[1]), (0x02, 1), "small message IDs only");
    Some((body[2], body[3]))
}

/// The server: every Search gets one entry and one reference to `ref_uri`, and then stays open
/// (no SearchResultDone: the server is still working on it, or it's a persistent search).
/// Every Compare is answered with compareFalse.
async fn serve(l: TcpListener, ref_uri: String) {
    let (mut s, _) = l.accept().await.unwrap();
    while let Some((id, op)) = read_msg(&mut s).await {
        match op {
            0x63 => {
                s.write_all(&msg(id, entry_op("cn=first,dc=example,dc=org")))
                    .await
                    .unwrap();
                s.write_all(&msg(id, reference_op(&ref_uri))).await.unwrap();
            }
            0x6e => s.write_all(&msg(id, result_op(0x6f, 6))).await.unwrap(),
            _ => (),
        }
    }
}

/// The set of message IDs in use on the connection, as printed by Ldap's Debug impl:
/// "msgmap: Mutex { data: (<last id>, {<ids in use>}), poisoned: false, .. }".
fn ids_in_use(ldap: &Ldap) -> String {
    let d = format!("{:?}", ldap);
    let start = d.find("data: (").expect("Debug output of Ldap shows the ID table");
    let rest = &d[start..];
    let open = rest.find('{').expect("set of IDs in use");
    let close = rest.find('}').expect("set of IDs in use");
    rest[open..=close].to_string()
}

/// Round trips through the connection task, so that every scrub request sent before the call
/// has been handled when it returns (the task handles whatever is ready in its queues while it
/// waits for the server's answer). Stops early once no ID is in use.
async fn settle(ldap: &mut Ldap) -> String {
    for _ in 0..20 {
        let res = ldap
            .compare("cn=probe,dc=example,dc=org", "cn", "probe")
            .await
            .expect("the connection must still be usable");
        assert_eq!(res.0.rc, 6, "the probe Compare gets its own answer");
        if ids_in_use(ldap) == "{}" {
            break;
        }
    }
    ids_in_use(ldap)
}

// ---------- an adapter which chases referrals ----------

/// Opens a connection to every server the Search is referred to (what it would do there is of
/// no interest here). If the connection can't be opened, the Search as a whole fails with the
/// connection error.
#[derive(Clone, Debug)]
struct ChaseReferrals;

impl SoloMarker for ChaseReferrals {}

#[async_trait]
impl<'a, S, A> Adapter<'a, S, A> for ChaseReferrals
where
    S: AsRef<str> + Send + Sync + 'a,
    A: AsRef<[S]> + Send + Sync + 'a,
{
    async fn start(
        &mut self,
        stream: &mut SearchStream<'a, S, A>,
        base: &str,
        scope: Scope,
        filter: &str,
        attrs: A,
    ) -> Result<()> {
        stream.start(base, scope, filter, attrs).await
    }

    async fn next(&mut self, stream: &mut SearchStream<'a, S, A>) -> Result<Option<ResultEntry>> {
        loop {
            let re = match stream.next().await? {
                Some(re) => re,
                None => return Ok(None),
            };
            if !re.is_ref() {
                return Ok(Some(re));
            }
            for uri in parse_refs(re.0) {
                let (conn, _ldap) = LdapConnAsync::new(&uri).await?;
                ldap3::drive!(conn);
                // ... continue the Search there ...
            }
        }
    }

    async fn finish(&mut self, stream: &mut SearchStream<'a, S, A>) -> LdapResult {
        stream.finish().await
    }
}

#[tokio::test]
async fn finish_after_an_adapter_error_releases_the_search_id() {
    // A port on which nobody listens, for the referral.
    let dead_port = {
        let l = TcpListener::bind("127.0.0.1:0").await.unwrap();
        l.local_addr().unwrap().port()
    };
    let l = TcpListener::bind("127.0.0.1:0").await.unwrap();
    let port = l.local_addr().unwrap().port();
    tokio::spawn(serve(l, format!("ldap://127.0.0.1:{}/", dead_port)));

    let (conn, mut ldap) = LdapConnAsync::new(&format!("ldap://127.0.0.1:{}", port))
        .await
        .unwrap();
    ldap3::drive!(conn);
    assert_eq!(ids_in_use(&ldap), "{}", "fresh connection: no ID in use");

    // Control: a direct stream given up while the Search is in progress. finish() returns the
    // cancellation result and releases the ID.
    let mut stream = ldap
        .streaming_search("dc=example,dc=org", Scope::Subtree, "(objectClass=*)", vec!["cn"])
        .await
        .unwrap();
    assert!(stream.next().await.unwrap().is_some());
    assert_eq!(
        ids_in_use(&ldap),
        "{1}",
        "control: the Search in progress holds its ID (1)"
    );
    assert_eq!(stream.finish().await.rc, 88);
    drop(stream);
    assert_eq!(
        settle(&mut ldap).await,
        "{}",
        "control: finish() on a stream in the Active state releases the ID of its Search"
    );

    // The same Search through the adapter. The first item is an entry, the second one a
    // reference to a server which refuses the connection: next() fails with the adapter's error
    // while the Search is still in progress on the original connection.
    let mut stream = ldap
        .streaming_search_with(
            ChaseReferrals,
            "dc=example,dc=org",
            Scope::Subtree,
            "(objectClass=*)",
            vec!["cn"],
        )
        .await
        .unwrap();
    let search_id = stream.ldap_handle().last_id();
    assert!(stream.next().await.unwrap().is_some(), "the entry");
    let err = stream.next().await;
    assert!(
        err.is_err(),
        "the referral can't be chased, next() reports the adapter's error: {:?}",
        err
    );
    assert_eq!(
        ids_in_use(&ldap),
        format!("{{{}}}", search_id),
        "the Search is still in progress and holds its ID"
    );
    let res = stream.finish().await;
    assert_eq!(res.rc, 88, "finish() before the end of the Search reports cancellation");
    assert_eq!(
        stream.state(),
        ldap3::StreamState::Closed,
        "the stream has been finalized"
    );
    drop(stream);

    let left = settle(&mut ldap).await;
    assert_eq!(
        left, "{}",
        "expected: once finish() has been called on the failed stream and nothing else is \
         outstanding, no message ID is reserved (C13; SearchStream docs: finish() terminates \
         search result processing in the client; this is also what finish() did before the \
         repair f5e9a5a, when it scrubbed the ID in every state but Done). \
         Got: the ID of the finished Search ({}) is still reserved - IDs in use: {} - and the \
         connection task keeps its routing entry, because finish_inner() now sends the scrub \
         request in the Active state only, and the adapter's error has put the stream into \
         the Error state with the Search still in progress.",
        search_id, left
    );
}
