// Review checks for the repairs 443fee4, ace1302, 7a2e96f, 7c94cfa, 597c4a6, 3c9e5d9.
//
// Scripted in-process servers, raw LDAP bytes. Every test states what is expected and why.

use std::time::{Duration, Instant};

use ldap3::adapters::{Adapter, EntriesOnly, PagedResults};
use ldap3::asn1::{write, ASNTag};
use ldap3::{LdapConn, LdapConnAsync, LdapConnSettings, LdapError, Scope};
use tokio::io::{AsyncRead, AsyncReadExt, AsyncWrite, AsyncWriteExt};
use tokio::net::{TcpListener, UnixListener};

// ---------------------------------------------------------------- BER helpers

fn len_octets(n: usize) -> Vec<u8> {
    if n < 128 {
        vec![n as u8]
    } else if n < 256 {
        vec![0x81, n as u8]
    } else {
        vec![0x82, (n >> 8) as u8, n as u8]
    }
}

fn tlv(tag: u8, content: &[u8]) -> Vec<u8> {
    let mut v = vec![tag];
    v.extend(len_octets(content.len()));
    v.extend_from_slice(content);
    v
}

fn cat(parts: &[Vec<u8>]) -> Vec<u8> {
    parts.iter().flatten().copied().collect()
}

fn int(n: u32) -> Vec<u8> {
    let mut b = n.to_be_bytes().to_vec();
    while b.len() > 1 && b[0] == 0 && b[1] & 0x80 == 0 {
        b.remove(0);
    }
    if b[0] & 0x80 != 0 {
        b.insert(0, 0);
    }
    tlv(0x02, &b)
}

fn msg(id: u32, op: Vec<u8>, ctrls: Option<Vec<u8>>) -> Vec<u8> {
    let mut parts = vec![int(id), op];
    if let Some(c) = ctrls {
        parts.push(c);
    }
    tlv(0x30, &cat(&parts))
}

/// LDAPResult-shaped op with the given application tag and raw result code octets.
fn result_op(app_tag: u8, rc_octets: &[u8]) -> Vec<u8> {
    tlv(
        app_tag,
        &cat(&[tlv(0x0a, rc_octets), tlv(0x04, b""), tlv(0x04, b"")]),
    )
}

fn entry_op(dn: &str) -> Vec<u8> {
    tlv(0x64, &cat(&[tlv(0x04, dn.as_bytes()), tlv(0x30, b"")]))
}

fn paged_ctrl(cookie: &[u8]) -> Vec<u8> {
    let val = tlv(0x30, &cat(&[int(0), tlv(0x04, cookie)]));
    tlv(
        0xa0,
        &tlv(
            0x30,
            &cat(&[tlv(0x04, b"1.2.840.113556.1.4.319"), tlv(0x04, &val)]),
        ),
    )
}

/// Read one complete LDAPMessage; returns (message id, whole message bytes).
async fn read_msg<R: AsyncRead + Unpin>(r: &mut R) -> Option<(u32, Vec<u8>)> {
    let mut hdr = [0u8; 2];
    r.read_exact(&mut hdr).await.ok()?;
    let mut all = hdr.to_vec();
    let len = if hdr[1] & 0x80 == 0 {
        hdr[1] as usize
    } else {
        let n = (hdr[1] & 0x7f) as usize;
        let mut lb = vec![0u8; n];
        r.read_exact(&mut lb).await.ok()?;
        all.extend_from_slice(&lb);
        lb.iter().fold(0usize, |a, &b| (a << 8) | b as usize)
    };
    let mut body = vec![0u8; len];
    r.read_exact(&mut body).await.ok()?;
    all.extend_from_slice(&body);
    // message id: 02 len octets
    assert_eq!(body[0], 0x02);
    let il = body[1] as usize;
    let id = body[2..2 + il].iter().fold(0u32, |a, &b| (a << 8) | b as u32);
    Some((id, all))
}

fn find(hay: &[u8], needle: &[u8]) -> bool {
    hay.windows(needle.len()).any(|w| w == needle)
}

async fn send<W: AsyncWrite + Unpin>(w: &mut W, bytes: &[u8]) {
    w.write_all(bytes).await.unwrap();
    w.flush().await.unwrap();
}

// ---------------------------------------------------------------- 3c9e5d9: filters

fn enc(f: &str) -> Result<Vec<u8>, ()> {
    let tag = ldap3::parse_filter(f)?;
    let mut buf = bytes::BytesMut::new();
    write::encode_into(&mut buf, tag.into_structure()).unwrap();
    Ok(buf.to_vec())
}

#[test]
fn filter_dn_rule() {
    // RFC 4515 s.3: extensible = ( attr [dnattrs] [matchingrule] ":=" value )
    //                           / ( [dnattrs] matchingrule ":=" value )
    let ext = |parts: &[Vec<u8>]| tlv(0xa9, &cat(parts));
    let cases: Vec<(&str, Vec<u8>)> = vec![
        ("(:dn:=x)", ext(&[tlv(0x81, b"dn"), tlv(0x83, b"x")])),
        (":dn:=x", ext(&[tlv(0x81, b"dn"), tlv(0x83, b"x")])),
        ("(:DN:=x)", ext(&[tlv(0x81, b"DN"), tlv(0x83, b"x")])),
        ("(:dn:=)", ext(&[tlv(0x81, b"dn"), tlv(0x83, b"")])),
        (
            "(:dn:dn:=x)",
            ext(&[tlv(0x81, b"dn"), tlv(0x83, b"x"), tlv(0x84, &[0xff])]),
        ),
        (
            "(:dn:2.5.13.2:=x)",
            ext(&[tlv(0x81, b"2.5.13.2"), tlv(0x83, b"x"), tlv(0x84, &[0xff])]),
        ),
        (
            "(:Dn:caseExactMatch:=x)",
            ext(&[
                tlv(0x81, b"caseExactMatch"),
                tlv(0x83, b"x"),
                tlv(0x84, &[0xff]),
            ]),
        ),
        ("(:dnMatch:=x)", ext(&[tlv(0x81, b"dnMatch"), tlv(0x83, b"x")])),
        ("(:dn-x:=x)", ext(&[tlv(0x81, b"dn-x"), tlv(0x83, b"x")])),
        (
            "(cn:dn:=x)",
            ext(&[tlv(0x82, b"cn"), tlv(0x83, b"x"), tlv(0x84, &[0xff])]),
        ),
        (
            "(cn:dn:dn:=x)",
            ext(&[
                tlv(0x81, b"dn"),
                tlv(0x82, b"cn"),
                tlv(0x83, b"x"),
                tlv(0x84, &[0xff]),
            ]),
        ),
        (
            "(&(:dn:=x)(!(:dn:=y)))",
            tlv(
                0xa0,
                &cat(&[
                    ext(&[tlv(0x81, b"dn"), tlv(0x83, b"x")]),
                    tlv(0xa2, &ext(&[tlv(0x81, b"dn"), tlv(0x83, b"y")])),
                ]),
            ),
        ),
    ];
    for (f, want) in cases {
        assert_eq!(
            enc(f),
            Ok(want),
            "filter {f} must compile to the RFC 4515 reading of its text"
        );
    }
    for bad in [
        "(:dn:)", "(:dn::=x)", "(:dn)", "(:dn=x)", "(:=x)", "(:dn:=x", "(:dn:=x))", "(:dn:=*)",
        "(:dn:dn:dn:=x)", "(:dn:=x)(", "(::dn:=x)", "(:dn:=(x))",
    ] {
        assert!(enc(bad).is_err(), "filter {bad} is not in the grammar");
    }
}

// ---------------------------------------------------------------- 597c4a6: result code

async fn bind_against(rc_octets: &'static [u8]) -> ldap3::result::Result<ldap3::LdapResult> {
    let listener = TcpListener::bind("127.0.0.1:0").await.unwrap();
    let port = listener.local_addr().unwrap().port();
    let srv = tokio::spawn(async move {
        let (mut s, _) = listener.accept().await.unwrap();
        let (id, _) = read_msg(&mut s).await.unwrap();
        send(&mut s, &msg(id, result_op(0x61, rc_octets), None)).await;
        let _ = read_msg(&mut s).await;
    });
    let (conn, mut ldap) = LdapConnAsync::new(&format!("ldap://127.0.0.1:{port}"))
        .await
        .unwrap();
    ldap3::drive!(conn);
    let res = tokio::time::timeout(Duration::from_secs(5), ldap.simple_bind("cn=x", "y"))
        .await
        .expect("C04: the bind must terminate");
    drop(ldap);
    srv.abort();
    res
}

#[tokio::test]
async fn result_code_forms() {
    assert!(
        bind_against(&[]).await.is_err(),
        "X.690 8.3.1/8.4: an ENUMERATED has at least one content octet; no result code"
    );
    assert_eq!(bind_against(&[0]).await.unwrap().rc, 0);
    assert_eq!(bind_against(&[49]).await.unwrap().rc, 49);
    assert_eq!(bind_against(&[0, 0x80]).await.unwrap().rc, 128);
    assert_eq!(
        bind_against(&[0x10, 0x00]).await.unwrap().rc,
        4096,
        "C03: two-octet result code"
    );
    assert!(
        bind_against(&[1, 0, 0, 0, 0]).await.is_err(),
        "2^32 does not fit and must not read as 0"
    );
}

#[tokio::test]
async fn search_done_empty_code() {
    let listener = TcpListener::bind("127.0.0.1:0").await.unwrap();
    let port = listener.local_addr().unwrap().port();
    tokio::spawn(async move {
        let (mut s, _) = listener.accept().await.unwrap();
        let (id, _) = read_msg(&mut s).await.unwrap();
        send(&mut s, &msg(id, entry_op("cn=a"), None)).await;
        send(&mut s, &msg(id, result_op(0x65, &[]), None)).await;
        let _ = read_msg(&mut s).await;
    });
    let (conn, mut ldap) = LdapConnAsync::new(&format!("ldap://127.0.0.1:{port}"))
        .await
        .unwrap();
    ldap3::drive!(conn);
    let res = tokio::time::timeout(
        Duration::from_secs(5),
        ldap.search("", Scope::Subtree, "(a=b)", vec!["*"]),
    )
    .await
    .expect("C04: the search must terminate");
    assert!(
        res.is_err(),
        "a SearchResultDone with an empty result code is malformed, got {res:?}"
    );
}

#[tokio::test]
async fn starttls_empty_code() {
    let listener = TcpListener::bind("127.0.0.1:0").await.unwrap();
    let port = listener.local_addr().unwrap().port();
    tokio::spawn(async move {
        let (mut s, _) = listener.accept().await.unwrap();
        let (id, _) = read_msg(&mut s).await.unwrap();
        send(&mut s, &msg(id, result_op(0x78, &[]), None)).await;
        let mut b = [0u8; 64];
        let _ = s.read(&mut b).await;
    });
    let settings = LdapConnSettings::new()
        .set_starttls(true)
        .set_no_tls_verify(true)
        .set_conn_timeout(Duration::from_secs(3));
    let t = Instant::now();
    let res = LdapConnAsync::with_settings(settings, &format!("ldap://127.0.0.1:{port}")).await;
    match res {
        Err(LdapError::Timeout { .. }) => panic!("should fail at once on the malformed response"),
        Err(_) => (),
        Ok(_) => panic!("C17: StartTLS answered with a result without code must fail"),
    }
    assert!(t.elapsed() < Duration::from_secs(2));
}

// ---------------------------------------------------------------- 7a2e96f: ldapi paths

fn pct(bytes: &[u8]) -> String {
    bytes.iter().map(|b| format!("%{b:02x}")).collect()
}

async fn ldapi_roundtrip(file_name: &[u8], url_host: String) {
    use std::ffi::OsStr;
    use std::os::unix::ffi::OsStrExt;
    let dir = std::env::temp_dir().join(format!("v07-{}", std::process::id()));
    std::fs::create_dir_all(&dir).unwrap();
    let path = dir.join(OsStr::from_bytes(file_name));
    let _ = std::fs::remove_file(&path);
    let listener = UnixListener::bind(&path).unwrap();
    tokio::spawn(async move {
        let (mut s, _) = listener.accept().await.unwrap();
        let (id, _) = read_msg(&mut s).await.unwrap();
        send(&mut s, &msg(id, result_op(0x61, &[0]), None)).await;
        let _ = read_msg(&mut s).await;
    });
    let url = format!(
        "ldapi://{}%2f{}",
        pct(dir.as_os_str().as_bytes()),
        url_host
    );
    let (conn, mut ldap) = LdapConnAsync::new(&url)
        .await
        .unwrap_or_else(|e| panic!("C18: {url} must reach the socket {path:?}: {e}"));
    ldap3::drive!(conn);
    assert_eq!(ldap.simple_bind("", "").await.unwrap().rc, 0);
    let _ = std::fs::remove_file(&path);
}

#[tokio::test]
async fn ldapi_paths() {
    ldapi_roundtrip(b"plain.sock", "plain.sock".into()).await;
    ldapi_roundtrip(b"sl\xe9pd.sock", "sl%e9pd.sock".into()).await;
    ldapi_roundtrip(b"sl\xe9pd2.sock", "sl%E9pd2.sock".into()).await;
    ldapi_roundtrip("sl\u{e9}pd3.sock".as_bytes(), "sl%c3%a9pd3.sock".into()).await;
    ldapi_roundtrip("sl\u{e9}pd4.sock".as_bytes(), "sl\u{e9}pd4.sock".into()).await;
    ldapi_roundtrip(b"a b:c.sock", "a%20b%3ac.sock".into()).await;
    ldapi_roundtrip(b"Upper.SOCK", "Upper.SOCK".into()).await;
    ldapi_roundtrip(b"pc%41.sock", "pc%2541.sock".into()).await;
    // bad ones: error, no panic
    for bad in [
        "ldapi://",
        "ldapi:///",
        "ldapi://%2ftmp%2fx:389",
        "ldapi://%2ftmp%2fx:",
        "ldapi://%00",
        "ldapi://%2ftmp%2fa%00b",
        "ldapi://%2fnonexistent%2fv07",
    ] {
        let r = LdapConnAsync::new(bad).await;
        assert!(r.is_err(), "C18: {bad} must be an error");
    }
}

// ---------------------------------------------------------------- 443fee4: sync constructor

#[test]
fn sync_constructor_timeout_and_errors() {
    // A server which accepts and never answers the StartTLS request.
    let listener = std::net::TcpListener::bind("127.0.0.1:0").unwrap();
    let port = listener.local_addr().unwrap().port();
    let h = std::thread::spawn(move || {
        use std::io::Read;
        let (mut s, _) = listener.accept().unwrap();
        s.set_read_timeout(Some(Duration::from_secs(3))).unwrap();
        let t = Instant::now();
        let mut b = [0u8; 256];
        // the StartTLS request, then EOF when the client gives up
        loop {
            match s.read(&mut b) {
                Ok(0) => break,
                Ok(_) => continue,
                Err(e) => panic!("the client's socket is still open after {:?}: {e}", t.elapsed()),
            }
        }
        assert!(
            t.elapsed() < Duration::from_millis(1500),
            "the failed constructor must close its socket (no leak): {:?}",
            t.elapsed()
        );
    });
    let settings = LdapConnSettings::new()
        .set_starttls(true)
        .set_conn_timeout(Duration::from_millis(300));
    let t = Instant::now();
    let r = LdapConn::with_settings(settings, &format!("ldap://127.0.0.1:{port}"));
    let el = t.elapsed();
    assert!(
        matches!(r, Err(LdapError::Timeout { .. })),
        "C18: the connection timeout bounds StartTLS: {r:?}"
    );
    assert!(
        el >= Duration::from_millis(300) && el < Duration::from_millis(1500),
        "timeout after {el:?}"
    );
    h.join().unwrap();
    // refused
    let l = std::net::TcpListener::bind("127.0.0.1:0").unwrap();
    let port = l.local_addr().unwrap().port();
    drop(l);
    assert!(LdapConn::new(&format!("ldap://127.0.0.1:{port}")).is_err());
    assert!(LdapConn::new("foo://x").is_err());
    assert!(LdapConn::new("ldapi://%2fnonexistent%2fv07%ff").is_err());
    assert!(LdapConn::new("ldap://name.invalid").is_err());
    // and a good one still works, several times (no runtime left in a bad state)
    for _ in 0..3 {
        let listener = std::net::TcpListener::bind("127.0.0.1:0").unwrap();
        let port = listener.local_addr().unwrap().port();
        let h = std::thread::spawn(move || {
            use std::io::{Read, Write};
            let (mut s, _) = listener.accept().unwrap();
            let mut b = [0u8; 256];
            let n = s.read(&mut b).unwrap();
            assert!(n > 0);
            // message id is 1
            s.write_all(&msg(1, result_op(0x61, &[0]), None)).unwrap();
            let _ = s.read(&mut b);
        });
        let mut ldap = LdapConn::new(&format!("ldap://127.0.0.1:{port}")).unwrap();
        assert_eq!(ldap.simple_bind("", "").unwrap().rc, 0);
        drop(ldap);
        h.join().unwrap();
    }
}

/// The constructor called where a runtime must not be dropped (inside an async context,
/// via block_in_place) - the error path must not panic.
#[tokio::test(flavor = "multi_thread", worker_threads = 2)]
async fn sync_constructor_error_inside_block_in_place() {
    let l = std::net::TcpListener::bind("127.0.0.1:0").unwrap();
    let port = l.local_addr().unwrap().port();
    drop(l);
    let r = tokio::task::spawn_blocking(move || {
        LdapConn::new(&format!("ldap://127.0.0.1:{port}")).map(|_| ())
    })
    .await
    .unwrap();
    assert!(r.is_err());
}

// ---------------------------------------------------------------- ace1302: IPv6 literal and TLS

#[cfg(feature = "tls-native")]
mod native {
use super::*;

const CERT: &str = include_str!("../hunt/certs/cert.pem");
const KEY: &str = include_str!("../hunt/certs/key8.pem");

async fn tls_server(listener: TcpListener, starttls: bool) {
    let id = native_tls::Identity::from_pkcs8(CERT.as_bytes(), KEY.as_bytes()).unwrap();
    let acc = tokio_native_tls::TlsAcceptor::from(native_tls::TlsAcceptor::new(id).unwrap());
    let (mut s, _) = listener.accept().await.unwrap();
    if starttls {
        let (id, m) = read_msg(&mut s).await.unwrap();
        assert!(find(&m, b"1.3.6.1.4.1.1466.20037"));
        send(&mut s, &msg(id, result_op(0x78, &[0]), None)).await;
    }
    let mut t = match acc.accept(s).await {
        Ok(t) => t,
        Err(_) => return,
    };
    while let Some((id, _)) = read_msg(&mut t).await {
        send(&mut t, &msg(id, result_op(0x61, &[0]), None)).await;
    }
}

fn trusting() -> LdapConnSettings {
    let c = native_tls::TlsConnector::builder()
        .add_root_certificate(native_tls::Certificate::from_pem(CERT.as_bytes()).unwrap())
        .build()
        .unwrap();
    LdapConnSettings::new()
        .set_connector(c)
        .set_conn_timeout(Duration::from_secs(5))
}

#[tokio::test]
async fn tls_ipv6_literal() {
    // The certificate is valid for IP ::1 and DNS localhost, not for 127.0.0.1.
    for starttls in [false, true] {
        let scheme = if starttls { "ldap" } else { "ldaps" };
        // IPv6 literal
        let l = TcpListener::bind("[::1]:0").await.unwrap();
        let port = l.local_addr().unwrap().port();
        tokio::spawn(tls_server(l, starttls));
        let url = format!("{scheme}://[::1]:{port}");
        let (conn, mut ldap) =
            LdapConnAsync::with_settings(trusting().set_starttls(starttls), &url)
                .await
                .unwrap_or_else(|e| panic!("{url}: certificate is valid for ::1: {e}"));
        ldap3::drive!(conn);
        assert_eq!(ldap.simple_bind("", "").await.unwrap().rc, 0);
        // the long form of the same address
        let l = TcpListener::bind("[::1]:0").await.unwrap();
        let port = l.local_addr().unwrap().port();
        tokio::spawn(tls_server(l, starttls));
        let url = format!("{scheme}://[0:0:0:0:0:0:0:1]:{port}");
        let r = LdapConnAsync::with_settings(trusting().set_starttls(starttls), &url).await;
        assert!(r.is_ok(), "{url}: {:?}", r.err());
        // the name
        let l = TcpListener::bind("127.0.0.1:0").await.unwrap();
        let port = l.local_addr().unwrap().port();
        tokio::spawn(tls_server(l, starttls));
        let url = format!("{scheme}://localhost:{port}");
        let r = LdapConnAsync::with_settings(trusting().set_starttls(starttls), &url).await;
        assert!(r.is_ok(), "{url}: {:?}", r.err());
        // an address the certificate isn't valid for
        let l = TcpListener::bind("127.0.0.1:0").await.unwrap();
        let port = l.local_addr().unwrap().port();
        tokio::spawn(tls_server(l, starttls));
        let url = format!("{scheme}://127.0.0.1:{port}");
        let r = LdapConnAsync::with_settings(trusting().set_starttls(starttls), &url).await;
        assert!(
            r.is_err(),
            "C17: {url}: the certificate is not valid for 127.0.0.1"
        );
        // ... unless verification is disabled
        let l = TcpListener::bind("[::1]:0").await.unwrap();
        let port = l.local_addr().unwrap().port();
        tokio::spawn(tls_server(l, starttls));
        let url = format!("{scheme}://[::1]:{port}");
        let r = LdapConnAsync::with_settings(
            LdapConnSettings::new()
                .set_no_tls_verify(true)
                .set_starttls(starttls),
            &url,
        )
        .await;
        assert!(r.is_ok(), "{url} (no verify): {:?}", r.err());
        // untrusted
        let l = TcpListener::bind("[::1]:0").await.unwrap();
        let port = l.local_addr().unwrap().port();
        tokio::spawn(tls_server(l, starttls));
        let url = format!("{scheme}://[::1]:{port}");
        let r =
            LdapConnAsync::with_settings(LdapConnSettings::new().set_starttls(starttls), &url)
                .await;
        assert!(r.is_err(), "C17: {url}: self-signed, not trusted");
    }
}

}

// ---------------------------------------------------------------- 7c94cfa: PagedResults

#[derive(Debug, Default)]
struct Seen {
    searches: Vec<Vec<u8>>,
}

async fn paged_server(
    listener: TcpListener,
    stall_second_page: bool,
    seen: std::sync::Arc<std::sync::Mutex<Seen>>,
) {
    let (mut s, _) = listener.accept().await.unwrap();
    let mut page = 0;
    while let Some((id, m)) = read_msg(&mut s).await {
        // searches only
        if !find(&m, b"1.2.840.113556.1.4.319") {
            continue;
        }
        seen.lock().unwrap().searches.push(m.clone());
        page += 1;
        match page {
            1 => {
                send(&mut s, &msg(id, entry_op("cn=1"), None)).await;
                send(&mut s, &msg(id, entry_op("cn=2"), None)).await;
                send(
                    &mut s,
                    &msg(id, result_op(0x65, &[0]), Some(paged_ctrl(b"COOKIE1"))),
                )
                .await;
            }
            2 => {
                if stall_second_page {
                    tokio::time::sleep(Duration::from_millis(600)).await;
                }
                send(&mut s, &msg(id, entry_op("cn=3"), None)).await;
                send(
                    &mut s,
                    &msg(id, result_op(0x65, &[0]), Some(paged_ctrl(b"COOKIE2"))),
                )
                .await;
            }
            3 => {
                send(&mut s, &msg(id, entry_op("cn=4"), None)).await;
                send(&mut s, &msg(id, result_op(0x65, &[0]), Some(paged_ctrl(b"")))).await;
            }
            _ => {
                send(&mut s, &msg(id, result_op(0x65, &[1]), None)).await;
            }
        }
    }
}

fn dn_of(re: &ldap3::ResultEntry) -> String {
    ldap3::SearchEntry::construct(re.clone()).dn
}

async fn paged_full(adapters: Vec<Box<dyn Adapter<'static, &'static str, Vec<&'static str>>>>) {
    let listener = TcpListener::bind("127.0.0.1:0").await.unwrap();
    let port = listener.local_addr().unwrap().port();
    let seen = std::sync::Arc::new(std::sync::Mutex::new(Seen::default()));
    tokio::spawn(paged_server(listener, false, seen.clone()));
    let (conn, mut ldap) = LdapConnAsync::new(&format!("ldap://127.0.0.1:{port}"))
        .await
        .unwrap();
    ldap3::drive!(conn);
    let mut stream = ldap
        .streaming_search_with(adapters, "dc=x", Scope::Subtree, "(a=b)", vec!["cn"])
        .await
        .unwrap();
    let mut dns = vec![];
    while let Some(re) = stream.next().await.unwrap() {
        dns.push(dn_of(&re));
    }
    assert_eq!(dns, ["cn=1", "cn=2", "cn=3", "cn=4"], "C16");
    let res = stream.finish().await;
    assert_eq!(res.rc, 0);
    assert!(res.ctrls.is_empty(), "C16: no paging control in the final result");
    let seen = seen.lock().unwrap();
    assert_eq!(seen.searches.len(), 3);
    assert!(find(&seen.searches[1], b"COOKIE1"));
    assert!(find(&seen.searches[2], b"COOKIE2"));
}

#[tokio::test]
async fn paged_normal_both_orders() {
    paged_full(vec![Box::new(PagedResults::new(2))]).await;
    paged_full(vec![
        Box::new(EntriesOnly::new()),
        Box::new(PagedResults::new(2)),
    ])
    .await;
    paged_full(vec![
        Box::new(PagedResults::new(2)),
        Box::new(EntriesOnly::new()),
    ])
    .await;
}

async fn paged_given_up(adapters: Vec<Box<dyn Adapter<'static, &'static str, Vec<&'static str>>>>) {
    let listener = TcpListener::bind("127.0.0.1:0").await.unwrap();
    let port = listener.local_addr().unwrap().port();
    let seen = std::sync::Arc::new(std::sync::Mutex::new(Seen::default()));
    tokio::spawn(paged_server(listener, true, seen.clone()));
    let (conn, mut ldap) = LdapConnAsync::new(&format!("ldap://127.0.0.1:{port}"))
        .await
        .unwrap();
    ldap3::drive!(conn);
    let mut stream = ldap
        .streaming_search_with(adapters, "dc=x", Scope::Subtree, "(a=b)", vec!["cn"])
        .await
        .unwrap();
    assert_eq!(dn_of(&stream.next().await.unwrap().unwrap()), "cn=1");
    assert_eq!(dn_of(&stream.next().await.unwrap().unwrap()), "cn=2");
    // The third call reads the end of page 1 and asks for page 2. Give it up at once, on
    // its first poll: the follow-up has been queued, its acknowledgement not yet received.
    {
        let fut = stream.next();
        tokio::pin!(fut);
        let polled = futures::poll!(fut.as_mut());
        assert!(polled.is_pending(), "expected the page switch to be pending");
    }
    // let the driver do its work
    tokio::time::sleep(Duration::from_millis(100)).await;
    let r = tokio::time::timeout(Duration::from_secs(3), stream.next())
        .await
        .expect("C04: next() must terminate");
    assert!(
        matches!(r, Ok(None)),
        "after the page switch was given up the stream ends: {r:?}"
    );
    let res = stream.finish().await;
    assert_eq!(res.rc, 88, "finish() after a given-up page switch: {res:?}");
    assert_eq!(stream.finish().await.rc, 80);
    // the connection still works, and the late page goes nowhere
    tokio::time::sleep(Duration::from_millis(700)).await;
    {
        let seen = seen.lock().unwrap();
        assert_eq!(
            seen.searches.len(),
            2,
            "exactly one follow-up with COOKIE1 may have been sent"
        );
    }
    // The server answers anything that carries the paging OID; here it is in the filter.
    let mut ldap2 = ldap.clone();
    let (rs, res) = ldap2
        .search("", Scope::Base, "(x=1.2.840.113556.1.4.319)", vec!["*"])
        .await
        .unwrap()
        .success()
        .unwrap();
    assert_eq!(rs.len(), 1, "C01: only its own entry");
    assert_eq!(dn_of(&rs[0]), "cn=4");
    assert_eq!(res.rc, 0);
}

#[tokio::test]
async fn paged_given_up_both_orders() {
    paged_given_up(vec![Box::new(PagedResults::new(2))]).await;
    paged_given_up(vec![
        Box::new(EntriesOnly::new()),
        Box::new(PagedResults::new(2)),
    ])
    .await;
    paged_given_up(vec![
        Box::new(PagedResults::new(2)),
        Box::new(EntriesOnly::new()),
    ])
    .await;
}

// ---------------------------------------------------------------- 443fee4 with a stalled resolver
//
// Needs a private network namespace (binds UDP 127.0.0.1:53, the resolver of this sandbox):
//   unshare -n sh -c 'ip link set lo up; RES_OPTIONS="timeout:2 attempts:2" \
//     cargo test --offline --test review_demo -- --ignored stalled'
#[test]
#[ignore]
fn sync_constructor_stalled_lookup() {
    let dns = std::net::UdpSocket::bind("127.0.0.1:53").expect("run inside `unshare -n`");
    for (starttls, url) in [
        (false, "ldap://stalled-v07.example.com"),
        (true, "ldap://stalled-v07.example.com"),
        (false, "ldaps://stalled-v07.example.com"),
    ] {
        let settings = LdapConnSettings::new()
            .set_starttls(starttls)
            .set_conn_timeout(Duration::from_millis(500));
        let t = Instant::now();
        let r = LdapConn::with_settings(settings, url);
        let el = t.elapsed();
        assert!(
            matches!(r, Err(LdapError::Timeout { .. })),
            "{url}: expected the connection timeout, got {r:?}"
        );
        assert!(
            el < Duration::from_millis(1500),
            "C18: {url}: the connection timeout (500 ms) bounds establishment; returned after {el:?}"
        );
    }
    // from_url, the other constructor
    let url = url::Url::parse("ldap://stalled2-v07.example.com").unwrap();
    let t = Instant::now();
    let r = LdapConn::from_url_with_settings(
        LdapConnSettings::new().set_conn_timeout(Duration::from_millis(500)),
        &url,
    );
    assert!(r.is_err());
    assert!(t.elapsed() < Duration::from_millis(1500), "{:?}", t.elapsed());
    drop(dns);
}
