// ace1302 with the rustls backend:
// cargo test --offline --no-default-features --features tls-rustls,sync --test review_rustls
#![cfg(feature = "tls-rustls")]

use std::sync::Arc;
use std::time::Duration;

use ldap3::{LdapConnAsync, LdapConnSettings};
use rustls::pki_types::{CertificateDer, PrivateKeyDer, PrivatePkcs8KeyDer};
use tokio::io::{AsyncReadExt, AsyncWriteExt};
use tokio::net::TcpListener;

const CA: &[u8] = include_bytes!("../hunt/certs/ca.der");
const LEAF: &[u8] = include_bytes!("../hunt/certs/leaf.der");
const KEY: &[u8] = include_bytes!("../hunt/certs/leaf-key.der");

async fn server(l: TcpListener, starttls: bool) {
    let cfg = rustls::ServerConfig::builder()
        .with_no_client_auth()
        .with_single_cert(
            vec![CertificateDer::from(LEAF.to_vec())],
            PrivateKeyDer::Pkcs8(PrivatePkcs8KeyDer::from(KEY.to_vec())),
        )
        .unwrap();
    let acc = tokio_rustls::TlsAcceptor::from(Arc::new(cfg));
    let (mut s, _) = l.accept().await.unwrap();
    if starttls {
        let mut b = [0u8; 256];
        let n = s.read(&mut b).await.unwrap();
        assert!(n > 0);
        // ExtendedResponse success, message id 1
        s.write_all(b"\x30\x0c\x02\x01\x01\x78\x07\x0a\x01\x00\x04\x00\x04\x00")
            .await
            .unwrap();
    }
    let mut t = match acc.accept(s).await {
        Ok(t) => t,
        Err(_) => return,
    };
    let mut b = [0u8; 256];
    while let Ok(n) = t.read(&mut b).await {
        if n == 0 {
            break;
        }
        // BindResponse success under the request's id (one octet)
        let id = b[4];
        let _ = t
            .write_all(&[0x30, 0x0c, 0x02, 0x01, id, 0x61, 0x07, 0x0a, 0x01, 0x00, 0x04, 0x00, 0x04, 0x00])
            .await;
    }
}

fn trusting() -> LdapConnSettings {
    let mut roots = rustls::RootCertStore::empty();
    roots.add(CertificateDer::from(CA.to_vec())).unwrap();
    let cfg = rustls::ClientConfig::builder()
        .with_root_certificates(roots)
        .with_no_client_auth();
    LdapConnSettings::new()
        .set_config(Arc::new(cfg))
        .set_conn_timeout(Duration::from_secs(5))
}

#[tokio::test]
async fn rustls_ipv6_literal() {
    for starttls in [false, true] {
        let scheme = if starttls { "ldap" } else { "ldaps" };
        let l = TcpListener::bind("[::1]:0").await.unwrap();
        let port = l.local_addr().unwrap().port();
        tokio::spawn(server(l, starttls));
        let url = format!("{scheme}://[::1]:{port}");
        let (conn, mut ldap) =
            LdapConnAsync::with_settings(trusting().set_starttls(starttls), &url)
                .await
                .unwrap_or_else(|e| panic!("{url}: the certificate is valid for ::1: {e}"));
        ldap3::drive!(conn);
        assert_eq!(ldap.simple_bind("", "").await.unwrap().rc, 0);

        let l = TcpListener::bind("127.0.0.1:0").await.unwrap();
        let port = l.local_addr().unwrap().port();
        tokio::spawn(server(l, starttls));
        let url = format!("{scheme}://localhost:{port}");
        let r = LdapConnAsync::with_settings(trusting().set_starttls(starttls), &url).await;
        assert!(r.is_ok(), "{url}: {:?}", r.err());

        let l = TcpListener::bind("127.0.0.1:0").await.unwrap();
        let port = l.local_addr().unwrap().port();
        tokio::spawn(server(l, starttls));
        let url = format!("{scheme}://127.0.0.1:{port}");
        let r = LdapConnAsync::with_settings(trusting().set_starttls(starttls), &url).await;
        assert!(r.is_err(), "C17: {url}: not valid for 127.0.0.1");

        let l = TcpListener::bind("[::1]:0").await.unwrap();
        let port = l.local_addr().unwrap().port();
        tokio::spawn(server(l, starttls));
        let url = format!("{scheme}://[::1]:{port}");
        let r = LdapConnAsync::with_settings(
            LdapConnSettings::new()
                .set_no_tls_verify(true)
                .set_starttls(starttls),
            &url,
        )
        .await;
        assert!(r.is_ok(), "{url} (no verify): {:?}", r.err());
    }
}
