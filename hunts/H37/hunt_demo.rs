// Hunt H37 - property C17: requested TLS is never silently downgraded.
//
// "... connection establishment fails - rather than handing back a usable handle - if the
// StartTLS response is not success ..." for all server behaviours during establishment
// (refusing StartTLS with any non-zero code, answering garbage, ...).
//
// The demonstration is `c17_starttls_response_without_a_result_code_must_fail`; the other
// tests are the hypotheses which turned out fine (they pass).

use std::io::{Read, Write};
use std::net::{TcpListener, TcpStream};
use std::sync::mpsc;
use std::thread;
use std::time::Duration;

use ldap3::{LdapConnAsync, LdapConnSettings, LdapError};

const CERT: &[u8] = include_bytes!("../data/tls/cert.pem");
const KEY: &[u8] = include_bytes!("../data/tls/key.pem");

const HANG_GUARD: Duration = Duration::from_secs(20);

/// ExtendedResponse, id 1, resultCode success(0), empty matchedDN and diagnosticMessage.
const STARTTLS_OK: &[u8] = &[
    0x30, 0x0c, 0x02, 0x01, 0x01, 0x78, 0x07, 0x0a, 0x01, 0x00, 0x04, 0x00, 0x04, 0x00,
];
/// ExtendedResponse, id 1, whose resultCode ENUMERATED has NO content octets (0a 00): not a
/// result code at all, let alone success.
const STARTTLS_EMPTY_RC: &[u8] = &[
    0x30, 0x0b, 0x02, 0x01, 0x01, 0x78, 0x06, 0x0a, 0x00, 0x04, 0x00, 0x04, 0x00,
];

fn starttls_rc(rc: u8) -> Vec<u8> {
    let mut v = STARTTLS_OK.to_vec();
    v[9] = rc;
    v
}

/// BindResponse for message id 2 with the given result code.
fn bind_resp_id2(rc: u8) -> Vec<u8> {
    vec![
        0x30, 0x0c, 0x02, 0x01, 0x02, 0x61, 0x07, 0x0a, 0x01, rc, 0x04, 0x00, 0x04, 0x00,
    ]
}

/// Read one LDAPMessage (short or long definite length) from a blocking stream.
fn read_msg<R: Read>(r: &mut R) -> std::io::Result<Vec<u8>> {
    let mut hdr = [0u8; 2];
    r.read_exact(&mut hdr)?;
    let mut msg = hdr.to_vec();
    let len = if hdr[1] & 0x80 == 0 {
        hdr[1] as usize
    } else {
        let n = (hdr[1] & 0x7f) as usize;
        let mut lb = vec![0u8; n];
        r.read_exact(&mut lb)?;
        msg.extend_from_slice(&lb);
        lb.iter().fold(0usize, |a, &b| (a << 8) | b as usize)
    };
    let mut body = vec![0u8; len];
    r.read_exact(&mut body)?;
    msg.extend_from_slice(&body);
    Ok(msg)
}

fn acceptor() -> native_tls::TlsAcceptor {
    let ident = native_tls::Identity::from_pkcs8(CERT, KEY).expect("test identity");
    native_tls::TlsAcceptor::new(ident).expect("acceptor")
}

#[derive(Debug, Default)]
struct ServerReport {
    /// The first cleartext message was the StartTLS request.
    got_starttls_req: bool,
    /// The TLS handshake was completed on the server side.
    handshake_done: bool,
    /// Number of LDAP messages received inside the TLS session.
    tls_msgs: usize,
}

/// A scripted StartTLS server: reads the StartTLS request, writes `cleartext_answer` in one
/// write, then (if `do_tls`) performs a TLS handshake and answers every message received inside
/// the session with `tls_answer` until the client goes away.
fn spawn_server(
    cleartext_answer: Vec<u8>,
    do_tls: bool,
    tls_answer: Vec<u8>,
) -> (u16, mpsc::Receiver<ServerReport>) {
    let listener = TcpListener::bind("127.0.0.1:0").expect("bind");
    let port = listener.local_addr().unwrap().port();
    let (tx, rx) = mpsc::channel();
    thread::spawn(move || {
        let mut rep = ServerReport::default();
        let (mut sock, _) = listener.accept().expect("accept");
        sock.set_read_timeout(Some(HANG_GUARD)).unwrap();
        if let Ok(req) = read_msg(&mut sock) {
            rep.got_starttls_req = req.len() > 5
                && req[5] == 0x77
                && req
                    .windows(22)
                    .any(|w| w == b"1.3.6.1.4.1.1466.20037".as_slice());
        }
        let _ = sock.write_all(&cleartext_answer);
        let _ = sock.flush();
        if do_tls {
            if let Ok(mut tls) = acceptor().accept(sock) {
                rep.handshake_done = true;
                while let Ok(_m) = read_msg(&mut tls) {
                    rep.tls_msgs += 1;
                    if tls.write_all(&tls_answer).is_err() {
                        break;
                    }
                    let _ = tls.flush();
                }
            }
        } else {
            // keep the socket open for a moment so that a failure is the client's decision
            let mut buf = [0u8; 256];
            let _ = sock.read(&mut buf);
        }
        let _ = tx.send(rep);
    });
    (port, rx)
}

fn starttls_settings(no_verify: bool) -> LdapConnSettings {
    LdapConnSettings::new()
        .set_starttls(true)
        .set_no_tls_verify(no_verify)
        .set_conn_timeout(HANG_GUARD)
}

// ---------------------------------------------------------------------------------------------
// THE DEMONSTRATION
// ---------------------------------------------------------------------------------------------

/// The server answers the StartTLS request with an ExtendedResponse whose resultCode element is
/// empty (`0a 00`) - garbage, and in any case not "success". C17 demands that establishment
/// fails. Instead the library reads the missing code as 0, goes on with the handshake and hands
/// back a working handle.
#[tokio::test(flavor = "multi_thread", worker_threads = 2)]
async fn c17_starttls_response_without_a_result_code_must_fail() {
    let (port, report) = spawn_server(STARTTLS_EMPTY_RC.to_vec(), true, bind_resp_id2(0));
    let url = format!("ldap://localhost:{}", port);
    let res = tokio::time::timeout(
        HANG_GUARD * 2,
        LdapConnAsync::with_settings(starttls_settings(true), &url),
    )
    .await
    .expect("hang guard: establishment neither failed nor succeeded");

    let mut used = None;
    let established = match res {
        Err(_) => false,
        Ok((conn, mut ldap)) => {
            ldap3::drive!(conn);
            // show that the handle is a usable one
            let r = tokio::time::timeout(HANG_GUARD, ldap.simple_bind("cn=u", "p")).await;
            used = Some(format!("{:?}", r.map(|r| r.map(|lr| lr.rc))));
            drop(ldap);
            true
        }
    };
    let rep = report
        .recv_timeout(HANG_GUARD * 2)
        .expect("server thread report");
    assert!(rep.got_starttls_req, "test setup: the server did not see a StartTLS request");
    assert!(
        !established,
        "C17 demands that connection establishment FAILS when the StartTLS response is not \
         success (here: an ExtendedResponse whose resultCode ENUMERATED has no content octets, \
         i.e. garbage); instead LdapConnAsync::with_settings returned Ok((conn, ldap)): the \
         missing result code was taken for 0/success, the TLS handshake was started \
         (completed on the server side: {}), and the handle was usable (simple_bind through it: \
         {:?}, messages the server got in the session: {})",
        rep.handshake_done,
        used,
        rep.tls_msgs
    );
}

// ---------------------------------------------------------------------------------------------
// HYPOTHESES WHICH TURNED OUT FINE
// ---------------------------------------------------------------------------------------------

/// Control for the demonstration and hypothesis 1: every refusal code makes establishment fail,
/// including 10 (referral, accepted by non_error()) and codes with the low byte 0 in a longer
/// encoding.
#[tokio::test(flavor = "multi_thread", worker_threads = 2)]
async fn h1_refusals_fail() {
    for rc in [1u8, 2, 10, 52, 53, 80, 0x7f, 0x80, 0xff] {
        let (port, report) = spawn_server(starttls_rc(rc), true, bind_resp_id2(0));
        let url = format!("ldap://localhost:{}", port);
        let res = LdapConnAsync::with_settings(starttls_settings(true), &url).await;
        assert!(res.is_err(), "StartTLS refused with rc={} must fail establishment", rc);
        drop(res);
        let rep = report.recv_timeout(HANG_GUARD * 2).expect("report");
        assert!(!rep.handshake_done, "rc={}: no handshake after a refusal", rc);
    }
    // 0a 02 01 00 = 256: low byte zero
    let mut v = vec![0x30, 0x0d, 0x02, 0x01, 0x01, 0x78, 0x08, 0x0a, 0x02, 0x01, 0x00];
    v.extend_from_slice(&[0x04, 0x00, 0x04, 0x00]);
    let (port, _report) = spawn_server(v, true, bind_resp_id2(0));
    let url = format!("ldap://localhost:{}", port);
    let res = LdapConnAsync::with_settings(starttls_settings(true), &url).await;
    assert!(res.is_err(), "StartTLS refused with rc=256 must fail establishment");
}

/// Hypothesis 2: a cleartext BindResponse (id 2, success) injected right behind the StartTLS
/// response, in the same segment, is not taken for the answer to the first Bind of the protected
/// session (the real answer, given inside TLS, is 49).
#[tokio::test(flavor = "multi_thread", worker_threads = 2)]
async fn h2_injected_cleartext_is_not_a_response() {
    let mut answer = STARTTLS_OK.to_vec();
    answer.extend_from_slice(&bind_resp_id2(0));
    let (port, _report) = spawn_server(answer, true, bind_resp_id2(49));
    let url = format!("ldap://localhost:{}", port);
    match LdapConnAsync::with_settings(starttls_settings(true), &url).await {
        Err(_) => (), // the injected bytes broke the handshake: fine as well
        Ok((conn, mut ldap)) => {
            ldap3::drive!(conn);
            let r = tokio::time::timeout(HANG_GUARD, ldap.simple_bind("cn=u", "p"))
                .await
                .expect("hang guard");
            match r {
                Ok(lr) => assert_eq!(
                    lr.rc, 49,
                    "the injected cleartext BindResponse was taken for the Bind's result"
                ),
                Err(_) => (),
            }
        }
    }
}

/// Hypothesis 3: with verification left enabled, the self-signed (and expired) certificate is
/// refused, both with StartTLS and with ldaps; with a wrong name as well.
#[tokio::test(flavor = "multi_thread", worker_threads = 2)]
async fn h3_untrusted_certificate_fails() {
    let (port, _report) = spawn_server(STARTTLS_OK.to_vec(), true, bind_resp_id2(0));
    let url = format!("ldap://localhost:{}", port);
    let res = LdapConnAsync::with_settings(starttls_settings(false), &url).await;
    assert!(
        matches!(res, Err(LdapError::NativeTLS { .. })),
        "untrusted certificate must fail establishment (StartTLS)"
    );

    // ldaps: a TLS server right away
    let listener = TcpListener::bind("127.0.0.1:0").unwrap();
    let port = listener.local_addr().unwrap().port();
    thread::spawn(move || {
        let (sock, _) = listener.accept().unwrap();
        let _ = acceptor().accept(sock);
    });
    let url = format!("ldaps://localhost:{}", port);
    let res = LdapConnAsync::with_settings(
        LdapConnSettings::new().set_conn_timeout(HANG_GUARD),
        &url,
    )
    .await;
    assert!(res.is_err(), "untrusted certificate must fail establishment (ldaps)");
}

/// Hypothesis 4: an ldaps URL never puts an LDAP message on the wire in cleartext, whatever the
/// StartTLS setting: the first bytes the peer sees are a TLS ClientHello, and when the peer is
/// not a TLS server establishment fails.
#[tokio::test(flavor = "multi_thread", worker_threads = 2)]
async fn h4_ldaps_first_bytes_are_tls() {
    for starttls in [false, true] {
        let listener = TcpListener::bind("127.0.0.1:0").unwrap();
        let port = listener.local_addr().unwrap().port();
        let (tx, rx) = mpsc::channel();
        thread::spawn(move || {
            let (mut sock, _): (TcpStream, _) = listener.accept().unwrap();
            sock.set_read_timeout(Some(HANG_GUARD)).unwrap();
            let mut b = [0u8; 3];
            let _ = sock.read_exact(&mut b);
            // answer like a cleartext LDAP server would
            let _ = sock.write_all(STARTTLS_OK);
            let _ = tx.send(b);
        });
        let url = format!("ldaps://localhost:{}", port);
        let res = LdapConnAsync::with_settings(
            LdapConnSettings::new()
                .set_starttls(starttls)
                .set_no_tls_verify(true)
                .set_conn_timeout(HANG_GUARD),
            &url,
        )
        .await;
        assert!(res.is_err(), "a peer which is not a TLS server must fail ldaps establishment");
        let b = rx.recv_timeout(HANG_GUARD).unwrap();
        assert_eq!(b[0], 0x16, "first byte on an ldaps connection must be a TLS handshake record");
        assert_eq!(b[1], 0x03);
    }
}

/// Hypothesis 5: garbage, a close, or a close right after a success response all fail.
#[tokio::test(flavor = "multi_thread", worker_threads = 2)]
async fn h5_garbage_and_close_fail() {
    // not BER at all / a message which is not an LDAPMessage / a truncated LDAPResult
    let cases: Vec<Vec<u8>> = vec![
        // ('H' 'T' reads as a tag with an 84-byte body: long enough to be a complete element)
        format!("HTTP/1.1 400 Bad Request\r\nX-Pad: {}\r\n\r\n", "x".repeat(80)).into_bytes(),
        vec![0x04, 0x02, 0x41, 0x42],
        vec![0x30, 0x05, 0x02, 0x01, 0x01, 0x78, 0x00],
        vec![0x30, 0x08, 0x02, 0x01, 0x01, 0x78, 0x03, 0x0a, 0x01, 0x00],
    ];
    for c in cases {
        let (port, _report) = spawn_server(c.clone(), true, bind_resp_id2(0));
        let url = format!("ldap://localhost:{}", port);
        let res = LdapConnAsync::with_settings(starttls_settings(true), &url).await;
        assert!(res.is_err(), "garbage {:02x?} must fail establishment", c);
    }
    // success, but no handshake: the server closes
    let listener = TcpListener::bind("127.0.0.1:0").unwrap();
    let port = listener.local_addr().unwrap().port();
    thread::spawn(move || {
        let (mut sock, _) = listener.accept().unwrap();
        let _ = read_msg(&mut sock);
        let _ = sock.write_all(STARTTLS_OK);
    });
    let url = format!("ldap://localhost:{}", port);
    let res = LdapConnAsync::with_settings(starttls_settings(true), &url).await;
    assert!(res.is_err(), "close after the StartTLS response must fail establishment");
    // close without an answer
    let listener = TcpListener::bind("127.0.0.1:0").unwrap();
    let port = listener.local_addr().unwrap().port();
    thread::spawn(move || {
        let (mut sock, _) = listener.accept().unwrap();
        let _ = read_msg(&mut sock);
    });
    let url = format!("ldap://localhost:{}", port);
    let res = LdapConnAsync::with_settings(starttls_settings(true), &url).await;
    assert!(res.is_err(), "close instead of a StartTLS response must fail establishment");
}
