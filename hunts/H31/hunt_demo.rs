// Hypothesis tests for C05 (message IDs of in-flight operations are unique and within
// 1..2^31-1). Only the public API is used; the shared ID table is observed through the
// public `Debug` impl of `Ldap`, the IDs on the wire through a scripted in-process server.

use std::collections::{BTreeSet, HashSet};
use std::sync::{Arc, Mutex};
use std::time::Duration;

use ldap3::adapters::{EntriesOnly, PagedResults};
use ldap3::controls::RawControl;
use ldap3::exop::WhoAmI;
use ldap3::{Ldap, LdapConnAsync, Scope, SearchOptions, StreamState};
use tokio::io::{AsyncReadExt, AsyncWriteExt};
use tokio::net::TcpListener;
use tokio::sync::mpsc;
use tokio::time::{sleep, timeout};

const GUARD: Duration = Duration::from_secs(20);

// ---------- BER helpers ----------

fn ber_len(len: usize) -> Vec<u8> {
    if len < 128 {
        vec![len as u8]
    } else if len < 256 {
        vec![0x81, len as u8]
    } else {
        vec![0x82, (len >> 8) as u8, len as u8]
    }
}

fn tlv(tag: u8, content: &[u8]) -> Vec<u8> {
    let mut v = vec![tag];
    v.extend(ber_len(content.len()));
    v.extend_from_slice(content);
    v
}

fn int_content(n: i64) -> Vec<u8> {
    let b = n.to_be_bytes();
    let mut s = 0;
    while s < 7 && ((b[s] == 0 && b[s + 1] < 0x80) || (b[s] == 0xff && b[s + 1] >= 0x80)) {
        s += 1;
    }
    b[s..].to_vec()
}

fn envelope(id: i64, op: Vec<u8>, ctrls: Option<Vec<u8>>) -> Vec<u8> {
    let mut c = tlv(0x02, &int_content(id));
    c.extend(op);
    if let Some(ctrls) = ctrls {
        c.extend(ctrls);
    }
    tlv(0x30, &c)
}

fn ldap_result_body(rc: u8) -> Vec<u8> {
    let mut c = tlv(0x0a, &[rc]);
    c.extend(tlv(0x04, b""));
    c.extend(tlv(0x04, b""));
    c
}

fn result_msg(id: i64, app_tag: u8, rc: u8) -> Vec<u8> {
    envelope(id, tlv(0x60 | app_tag, &ldap_result_body(rc)), None)
}

fn entry_msg(id: i64, dn: &str) -> Vec<u8> {
    let mut c = tlv(0x04, dn.as_bytes());
    c.extend(tlv(0x30, b""));
    envelope(id, tlv(0x64, &c), None)
}

fn done_msg(id: i64, rc: u8) -> Vec<u8> {
    result_msg(id, 5, rc)
}

fn done_paged_msg(id: i64, cookie: &[u8]) -> Vec<u8> {
    let mut val = tlv(0x02, &[0]);
    val.extend(tlv(0x04, cookie));
    let val = tlv(0x30, &val);
    let mut ctrl = tlv(0x04, b"1.2.840.113556.1.4.319");
    ctrl.extend(tlv(0x04, &val));
    let ctrls = tlv(0xa0, &tlv(0x30, &ctrl));
    envelope(id, tlv(0x65, &ldap_result_body(0)), Some(ctrls))
}

fn intermediate_msg(id: i64) -> Vec<u8> {
    envelope(id, tlv(0x79, b""), None)
}

/// One request as seen by the server: message id (as a signed integer of whatever size was
/// sent), the tag octet of the protocol op, and for an Abandon the abandoned id.
#[derive(Clone, Debug)]
struct Req {
    id: i64,
    op: u8,
    arg: i64,
}

fn parse_len(buf: &[u8], pos: usize) -> Option<(usize, usize)> {
    let b = *buf.get(pos)?;
    if b < 0x80 {
        Some((b as usize, pos + 1))
    } else {
        let n = (b & 0x7f) as usize;
        if buf.len() < pos + 1 + n {
            return None;
        }
        let mut l = 0usize;
        for i in 0..n {
            l = (l << 8) | buf[pos + 1 + i] as usize;
        }
        Some((l, pos + 1 + n))
    }
}

fn signed(bytes: &[u8]) -> i64 {
    let mut v: i64 = if bytes[0] & 0x80 != 0 { -1 } else { 0 };
    for b in bytes {
        v = (v << 8) | *b as i64;
    }
    v
}

/// Take one complete LDAPMessage off the front of `buf`.
fn take_req(buf: &mut Vec<u8>) -> Option<Req> {
    if buf.is_empty() {
        return None;
    }
    assert_eq!(buf[0], 0x30, "client sent something which is not a SEQUENCE");
    let (len, start) = parse_len(buf, 1)?;
    if buf.len() < start + len {
        return None;
    }
    let msg: Vec<u8> = buf.drain(..start + len).collect();
    let body = &msg[start..];
    assert_eq!(body[0], 0x02, "message id is not an INTEGER");
    let (idlen, idstart) = parse_len(body, 1).unwrap();
    assert!(idlen >= 1 && idlen <= 8);
    let id = signed(&body[idstart..idstart + idlen]);
    let oppos = idstart + idlen;
    let op = body[oppos];
    let (oplen, opstart) = parse_len(body, oppos + 1).unwrap();
    let arg = if op == 0x50 {
        signed(&body[opstart..opstart + oplen])
    } else {
        0
    };
    Some(Req { id, op, arg })
}

// ---------- the ID table as the public Debug impl shows it ----------

/// (last id handed out, ids in use)
fn id_table(ldap: &Ldap) -> (i64, BTreeSet<i64>) {
    // The Debug impl of a Mutex prints "<locked>" if somebody holds it at that moment.
    let mut s = format!("{:?}", ldap);
    while !s.contains("data: (") {
        assert!(s.contains("<locked>"), "Debug output of Ldap shows the id table: {}", s);
        std::thread::yield_now();
        s = format!("{:?}", ldap);
    }
    let at = s.find("data: (").unwrap();
    let rest = &s[at + "data: (".len()..];
    let comma = rest.find(',').unwrap();
    let last: i64 = rest[..comma].trim().parse().unwrap();
    let open = rest.find('{').unwrap();
    let close = rest.find('}').unwrap();
    let set = rest[open + 1..close]
        .split(',')
        .map(|t| t.trim())
        .filter(|t| !t.is_empty())
        .map(|t| t.parse().unwrap())
        .collect();
    (last, set)
}

async fn wait_table(ldap: &Ldap, want: &[i64], what: &str) {
    let want: BTreeSet<i64> = want.iter().copied().collect();
    for _ in 0..400 {
        if id_table(ldap).1 == want {
            return;
        }
        sleep(Duration::from_millis(5)).await;
    }
    panic!(
        "{}: the IDs marked as in use must be {:?} (exactly the operations still outstanding), but the table holds {:?}",
        what,
        want,
        id_table(ldap).1
    );
}

async fn connect() -> (TcpListener, String) {
    let l = TcpListener::bind("127.0.0.1:0").await.unwrap();
    let url = format!("ldap://127.0.0.1:{}", l.local_addr().unwrap().port());
    (l, url)
}

// ---------- H1: many handles on many threads ----------

#[tokio::test(flavor = "multi_thread", worker_threads = 8)]
async fn h1_concurrent_handles_never_share_an_id() {
    let (l, url) = connect().await;
    // The server answers every request after holding it back for a while, out of order, and
    // checks at each arrival that the id is in range and not held by an unanswered request.
    let violations = Arc::new(Mutex::new(Vec::<String>::new()));
    let seen = Arc::new(Mutex::new(0usize));
    let v2 = violations.clone();
    let seen2 = seen.clone();
    let server = tokio::spawn(async move {
        let (sock, _) = l.accept().await.unwrap();
        let (mut rd, mut wr) = sock.into_split();
        let (txq, mut rxq) = mpsc::unbounded_channel::<Vec<u8>>();
        let writer = tokio::spawn(async move {
            while let Some(m) = rxq.recv().await {
                if wr.write_all(&m).await.is_err() {
                    break;
                }
            }
        });
        let outstanding = Arc::new(Mutex::new(HashSet::<i64>::new()));
        let mut buf = vec![];
        let mut n = 0u64;
        loop {
            let req = loop {
                if let Some(r) = take_req(&mut buf) {
                    break Some(r);
                }
                let mut tmp = [0u8; 8192];
                match rd.read(&mut tmp).await {
                    Ok(0) | Err(_) => break None,
                    Ok(k) => buf.extend_from_slice(&tmp[..k]),
                }
            };
            let req = match req {
                Some(r) => r,
                None => break,
            };
            *seen2.lock().unwrap() += 1;
            if req.id < 1 || req.id > i32::MAX as i64 {
                v2.lock().unwrap().push(format!("id {} out of 1..2^31-1", req.id));
            }
            if req.op == 0x42 {
                break;
            }
            if !outstanding.lock().unwrap().insert(req.id) {
                v2.lock()
                    .unwrap()
                    .push(format!("id {} sent while another request with it is unanswered", req.id));
            }
            n += 1;
            let delay = (n * 7919) % 13;
            let txq = txq.clone();
            let outstanding = outstanding.clone();
            tokio::spawn(async move {
                sleep(Duration::from_millis(delay)).await;
                let msgs: Vec<Vec<u8>> = match req.op {
                    0x63 => vec![entry_msg(req.id, "cn=a"), done_msg(req.id, 0)],
                    0x50 => vec![],
                    0x6e => vec![result_msg(req.id, 15, 6)],
                    0x77 => vec![intermediate_msg(req.id), result_msg(req.id, 24, 0)],
                    0x60 => vec![result_msg(req.id, 1, 0)],
                    0x4a => vec![result_msg(req.id, 11, 0)],
                    other => panic!("unexpected op {:x}", other),
                };
                outstanding.lock().unwrap().remove(&req.id);
                for m in msgs {
                    let _ = txq.send(m);
                }
            });
        }
        drop(txq);
        let _ = writer.await;
    });

    let (conn, ldap) = LdapConnAsync::new(&url).await.unwrap();
    ldap3::drive!(conn);
    let mut tasks = vec![];
    for t in 0..16u64 {
        let mut ldap = ldap.clone();
        tasks.push(tokio::spawn(async move {
            for i in 0..150u64 {
                match (t + i) % 7 {
                    0 => {
                        ldap.simple_bind("cn=x", "y").await.unwrap();
                    }
                    1 => {
                        let r = ldap.search("dc=x", Scope::Subtree, "(a=b)", vec!["a"]).await.unwrap();
                        assert_eq!(r.0.len(), 1);
                    }
                    2 => {
                        ldap.compare("cn=x", "a", "b").await.unwrap();
                    }
                    3 => {
                        ldap.extended(WhoAmI).await.unwrap();
                    }
                    4 => {
                        // a timeout that races with the answer
                        let _ = ldap
                            .with_timeout(Duration::from_millis((i % 12) + 0))
                            .delete("cn=x")
                            .await;
                    }
                    5 => {
                        let _ = ldap
                            .with_timeout(Duration::from_millis(i % 10))
                            .search("dc=x", Scope::Subtree, "(a=b)", vec!["a"])
                            .await;
                    }
                    _ => {
                        let mut s = ldap
                            .streaming_search("dc=x", Scope::Subtree, "(a=b)", vec!["a"])
                            .await
                            .unwrap();
                        if i % 2 == 0 {
                            let _ = s.next().await;
                        }
                        let _ = s.finish().await;
                        let id = s.ldap_handle().last_id();
                        ldap.abandon(id).await.unwrap();
                    }
                }
            }
        }));
    }
    for t in tasks {
        timeout(GUARD, t).await.expect("hang guard").unwrap();
    }
    wait_table(&ldap, &[], "after all operations of all handles are over").await;
    let (last, _) = id_table(&ldap);
    assert!(last >= 16 * 150, "counter {}", last);
    let mut ldap = ldap;
    ldap.unbind().await.unwrap();
    timeout(GUARD, server).await.expect("hang guard").unwrap();
    let v = violations.lock().unwrap();
    assert!(
        v.is_empty(),
        "every request must carry an id in 1..2^31-1 not shared with an outstanding operation; the server saw: {:?}",
        &v[..v.len().min(10)]
    );
    assert!(*seen.lock().unwrap() >= 16 * 150);
}

// ---------- H2: timeouts which race with the driver; the id of an operation which is still
// awaited stays in use whatever the peer sends in between ----------

#[tokio::test(flavor = "multi_thread", worker_threads = 4)]
async fn h2_timeouts_and_awkward_messages_keep_the_table_exact() {
    let (l, url) = connect().await;
    let (ctl_tx, mut ctl_rx) = mpsc::unbounded_channel::<Vec<u8>>();
    let (req_tx, mut req_rx) = mpsc::unbounded_channel::<Req>();
    let server = tokio::spawn(async move {
        let (sock, _) = l.accept().await.unwrap();
        let (mut rd, mut wr) = sock.into_split();
        let w = tokio::spawn(async move {
            while let Some(m) = ctl_rx.recv().await {
                wr.write_all(&m).await.unwrap();
            }
        });
        let mut buf = vec![];
        loop {
            while let Some(r) = take_req(&mut buf) {
                let _ = req_tx.send(r);
            }
            let mut tmp = [0u8; 4096];
            match rd.read(&mut tmp).await {
                Ok(0) | Err(_) => break,
                Ok(k) => buf.extend_from_slice(&tmp[..k]),
            }
        }
        let _ = w.await;
    });
    let (conn, mut ldap) = LdapConnAsync::new(&url).await.unwrap();
    ldap3::drive!(conn);

    // answers sent before the requests exist must not satisfy or release them
    ctl_tx.send(result_msg(1, 1, 0)).unwrap();
    ctl_tx.send(done_msg(2, 0)).unwrap();
    sleep(Duration::from_millis(50)).await;

    // 1: a Bind which stays unanswered, issued through a clone
    let mut l1 = ldap.clone();
    let bind = tokio::spawn(async move { l1.simple_bind("cn=x", "y").await });
    let r = timeout(GUARD, req_rx.recv()).await.unwrap().unwrap();
    assert_eq!((r.id, r.op), (1, 0x60));
    wait_table(&ldap, &[1], "one Bind waiting").await;

    // 2: a Search which stays open
    let mut s = ldap
        .streaming_search("dc=x", Scope::Subtree, "(a=b)", vec!["a"])
        .await
        .unwrap();
    let r = timeout(GUARD, req_rx.recv()).await.unwrap().unwrap();
    assert_eq!((r.id, r.op), (2, 0x63));
    wait_table(&ldap, &[1, 2], "Bind and Search waiting").await;

    // messages which are no result: intermediate for both, an ExtendedResponse and a
    // Bind response for the Search, an unsolicited notification, unknown ids
    ctl_tx.send(intermediate_msg(1)).unwrap();
    ctl_tx.send(intermediate_msg(2)).unwrap();
    ctl_tx.send(result_msg(2, 24, 0)).unwrap();
    ctl_tx.send(result_msg(2, 1, 0)).unwrap();
    ctl_tx.send(result_msg(0, 24, 52)).unwrap();
    ctl_tx.send(result_msg(77, 1, 0)).unwrap();
    ctl_tx.send(done_msg(78, 0)).unwrap();
    ctl_tx.send(entry_msg(2, "cn=e1")).unwrap();
    let e = timeout(GUARD, s.next()).await.unwrap().unwrap().unwrap();
    assert!(e.is_intermediate());
    let e = timeout(GUARD, s.next()).await.unwrap().unwrap().unwrap();
    assert!(!e.is_intermediate());
    wait_table(&ldap, &[1, 2], "Bind and Search still waiting after non-results").await;

    // zero and tiny timeouts on every kind of operation; none is answered
    for k in 0..40u64 {
        let d = Duration::from_micros(k * 37 % 300);
        match k % 5 {
            0 => assert!(ldap.with_timeout(d).delete("cn=x").await.is_err()),
            1 => assert!(ldap
                .with_timeout(d)
                .streaming_search("dc=x", Scope::Base, "(a=b)", vec!["a"])
                .await
                .map(|_| ())
                .is_err()
                || true),
            2 => {
                let _ = ldap.with_timeout(d).abandon(1000 + k as i32).await;
            }
            3 => assert!(ldap.with_timeout(d).extended(WhoAmI).await.is_err()),
            _ => assert!(ldap
                .with_timeout(d)
                .search("dc=x", Scope::Base, "(a=b)", vec!["a"])
                .await
                .is_err()),
        }
    }
    // Searches whose start made it before the timeout are open on the server and have been
    // dropped without finish(); the server ends them now.
    sleep(Duration::from_millis(100)).await;
    let mut sent = vec![];
    while let Ok(r) = req_rx.try_recv() {
        sent.push(r);
    }
    let ids: Vec<i64> = sent.iter().map(|r| r.id).collect();
    let uniq: HashSet<i64> = ids.iter().copied().collect();
    assert_eq!(uniq.len(), ids.len(), "ids on the wire must differ: {:?}", ids);
    for r in &sent {
        assert!(r.id >= 3 && r.id <= 42, "id {} out of the expected range", r.id);
        if r.op == 0x63 {
            ctl_tx.send(done_msg(r.id, 0)).unwrap();
        }
    }
    wait_table(&ldap, &[1, 2], "after forty timed-out operations").await;

    // a timeout while waiting for the next entry releases the Search, nothing else
    let mut s2 = ldap
        .with_timeout(Duration::from_millis(30))
        .streaming_search("dc=x", Scope::Subtree, "(a=b)", vec!["a"])
        .await
        .unwrap();
    let r = timeout(GUARD, req_rx.recv()).await.unwrap().unwrap();
    assert_eq!((r.id, r.op), (43, 0x63));
    wait_table(&ldap, &[1, 2, 43], "second Search open").await;
    // an operation through the stream's handle in the meantime
    let h = s2.ldap_handle();
    assert!(h.with_timeout(Duration::from_millis(1)).delete("cn=y").await.is_err());
    assert_eq!(h.last_id(), 44);
    assert!(s2.next().await.is_err());
    assert_eq!(s2.state(), StreamState::Error);
    wait_table(&ldap, &[1, 2], "second Search timed out").await;
    let _ = s2.finish().await;
    let _ = s2.finish().await;
    // late answers to operations given up
    ctl_tx.send(entry_msg(43, "cn=late")).unwrap();
    ctl_tx.send(done_msg(43, 0)).unwrap();
    ctl_tx.send(result_msg(44, 11, 0)).unwrap();
    wait_table(&ldap, &[1, 2], "late answers").await;

    // Abandon of the Bind through another handle: the Bind fails, its id and the Abandon's go
    let mut l2 = ldap.clone();
    l2.abandon(1).await.unwrap();
    assert!(timeout(GUARD, bind).await.unwrap().unwrap().is_err());
    wait_table(&ldap, &[2], "Bind abandoned").await;
    // Abandon of an id which belongs to nobody, or to the Abandon itself
    l2.abandon(47).await.unwrap();
    l2.abandon(0).await.unwrap();
    l2.abandon(-1).await.unwrap();
    l2.abandon(i32::MAX).await.unwrap();
    wait_table(&ldap, &[2], "pointless Abandons").await;
    // the first Search is still alive
    ctl_tx.send(entry_msg(2, "cn=e2")).unwrap();
    assert!(timeout(GUARD, s.next()).await.unwrap().unwrap().is_some());
    // abandoned while its stream is in use; then finish() (a second release)
    l2.abandon(2).await.unwrap();
    wait_table(&ldap, &[], "Search abandoned").await;
    assert!(timeout(GUARD, s.next()).await.unwrap().is_err());
    let _ = s.finish().await;
    // new operations go on from the counter
    let mut l3 = ldap.clone();
    let op = tokio::spawn(async move { l3.compare("cn=x", "a", "b").await });
    let mut r = timeout(GUARD, req_rx.recv()).await.unwrap().unwrap();
    while r.op == 0x50 || r.op == 0x4a {
        r = timeout(GUARD, req_rx.recv()).await.unwrap().unwrap();
    }
    assert_eq!(r.op, 0x6e);
    let (last, inuse) = id_table(&ldap);
    assert_eq!(r.id, last);
    assert_eq!(inuse, [last].into_iter().collect());
    ctl_tx.send(result_msg(r.id, 15, 5)).unwrap();
    assert!(timeout(GUARD, op).await.unwrap().unwrap().is_ok());
    wait_table(&ldap, &[], "all done").await;
    drop(ctl_tx);
    drop(ldap);
    drop(l2);
    drop(s);
    drop(s2);
    timeout(GUARD, server).await.expect("hang guard").unwrap();
}

// ---------- H3: adapted and paged Searches, streams dropped early, the connection going away ----------


#[tokio::test(flavor = "multi_thread", worker_threads = 4)]
async fn h3_paged_and_dropped_searches_and_a_closing_peer() {
    let (l, url) = connect().await;
    let (ctl_tx, mut ctl_rx) = mpsc::unbounded_channel::<Option<Vec<u8>>>();
    let (req_tx, mut req_rx) = mpsc::unbounded_channel::<Req>();
    let server = tokio::spawn(async move {
        let (sock, _) = l.accept().await.unwrap();
        let (mut rd, mut wr) = sock.into_split();
        let w = tokio::spawn(async move {
            while let Some(m) = ctl_rx.recv().await {
                match m {
                    Some(m) => wr.write_all(&m).await.unwrap(),
                    None => break,
                }
            }
            // closes the write side; the read side goes with the reader task below
            let _ = wr.shutdown().await;
        });
        let mut buf = vec![];
        loop {
            while let Some(r) = take_req(&mut buf) {
                let _ = req_tx.send(r);
            }
            let mut tmp = [0u8; 4096];
            match rd.read(&mut tmp).await {
                Ok(0) | Err(_) => break,
                Ok(k) => buf.extend_from_slice(&tmp[..k]),
            }
        }
        let _ = w.await;
    });
    let (conn, mut ldap) = LdapConnAsync::new(&url).await.unwrap();
    ldap3::drive!(conn);

    // a paged Search over three pages, with a timeout, search options and a control, adapters
    // in the unusual order; another operation through the stream's handle between the pages
    let adapters: Vec<Box<dyn ldap3::adapters::Adapter<'_, &str, Vec<&str>>>> = vec![
        Box::new(PagedResults::new(2)),
        Box::new(EntriesOnly::new()),
    ];
    let mut s = ldap
        .with_timeout(Duration::from_secs(5))
        .with_search_options(SearchOptions::new().sizelimit(10))
        .with_controls(RawControl {
            ctype: "1.2.3.4".into(),
            crit: false,
            val: None,
        })
        .streaming_search_with(adapters, "dc=x", Scope::Subtree, "(a=b)", vec!["a"])
        .await
        .unwrap();
    let r = timeout(GUARD, req_rx.recv()).await.unwrap().unwrap();
    assert_eq!((r.id, r.op), (1, 0x63));
    wait_table(&ldap, &[1], "first page").await;
    ctl_tx.send(Some(entry_msg(1, "cn=p1"))).unwrap();
    ctl_tx.send(Some(done_paged_msg(1, b"c1"))).unwrap();
    assert!(timeout(GUARD, s.next()).await.unwrap().unwrap().is_some());
    // the next() which switches the page: runs in the background until an entry comes
    let nx = tokio::spawn(async move {
        let e = s.next().await;
        (s, e)
    });
    let r = timeout(GUARD, req_rx.recv()).await.unwrap().unwrap();
    assert_eq!((r.id, r.op), (2, 0x63));
    wait_table(&ldap, &[2], "second page").await;
    // the old page's id answered again
    ctl_tx.send(Some(entry_msg(1, "cn=stale"))).unwrap();
    ctl_tx.send(Some(done_paged_msg(1, b"zz"))).unwrap();
    ctl_tx.send(Some(entry_msg(2, "cn=p2"))).unwrap();
    let (mut s, e) = timeout(GUARD, nx).await.unwrap().unwrap();
    assert!(e.unwrap().is_some());
    let h = s.ldap_handle();
    assert_eq!(h.last_id(), 2);
    let hop = h.with_timeout(Duration::from_millis(1)).delete("cn=y").await;
    assert!(hop.is_err());
    let r = timeout(GUARD, req_rx.recv()).await.unwrap().unwrap();
    assert_eq!((r.id, r.op), (3, 0x4a));
    wait_table(&ldap, &[2], "second page after an operation on its handle").await;
    ctl_tx.send(Some(done_paged_msg(2, b"c2"))).unwrap();
    let nx = tokio::spawn(async move {
        let e = s.next().await;
        (s, e)
    });
    let r = timeout(GUARD, req_rx.recv()).await.unwrap().unwrap();
    assert_eq!((r.id, r.op), (4, 0x63));
    wait_table(&ldap, &[4], "third page").await;
    ctl_tx.send(Some(done_paged_msg(4, b""))).unwrap();
    let (mut s, e) = timeout(GUARD, nx).await.unwrap().unwrap();
    assert!(e.unwrap().is_none());
    assert_eq!(s.finish().await.rc, 0);
    wait_table(&ldap, &[], "paged Search over").await;

    // a paged Search ended by finish() in the middle of a page
    let mut s = ldap
        .streaming_search_with(PagedResults::new(2), "dc=x", Scope::Subtree, "(a=b)", vec!["a"])
        .await
        .unwrap();
    let r = timeout(GUARD, req_rx.recv()).await.unwrap().unwrap();
    assert_eq!((r.id, r.op), (5, 0x63));
    ctl_tx.send(Some(entry_msg(5, "cn=q1"))).unwrap();
    assert!(timeout(GUARD, s.next()).await.unwrap().unwrap().is_some());
    assert_eq!(s.finish().await.rc, 88);
    wait_table(&ldap, &[], "paged Search finished early").await;
    ctl_tx.send(Some(done_paged_msg(5, b"c9"))).unwrap();
    assert!(timeout(GUARD, s.next()).await.unwrap().unwrap().is_none());
    assert_eq!(s.finish().await.rc, 80);
    wait_table(&ldap, &[], "paged Search finished twice").await;

    // a stream dropped without finish(): the id goes with the next message for it
    let s = ldap
        .streaming_search("dc=x", Scope::Subtree, "(a=b)", vec!["a"])
        .await
        .unwrap();
    let r = timeout(GUARD, req_rx.recv()).await.unwrap().unwrap();
    assert_eq!((r.id, r.op), (6, 0x63));
    drop(s);
    ctl_tx.send(Some(entry_msg(6, "cn=d1"))).unwrap();
    wait_table(&ldap, &[], "dropped stream").await;

    // search() given up by its caller while waiting for entries
    {
        let mut l2 = ldap.clone();
        let f = l2.search("dc=x", Scope::Subtree, "(a=b)", vec!["a"]);
        assert!(timeout(Duration::from_millis(100), f).await.is_err());
    }
    let r = timeout(GUARD, req_rx.recv()).await.unwrap().unwrap();
    assert_eq!((r.id, r.op), (7, 0x63));
    wait_table(&ldap, &[7], "search() given up, still open on the server").await;
    ldap.abandon(7).await.unwrap();
    wait_table(&ldap, &[], "search() given up and abandoned").await;
    let r = timeout(GUARD, req_rx.recv()).await.unwrap().unwrap();
    assert_eq!((r.id, r.op, r.arg), (8, 0x50, 7));

    // three operations in flight when the peer closes
    let mut l1 = ldap.clone();
    let a = tokio::spawn(async move { l1.simple_bind("cn=x", "y").await });
    let mut l2 = ldap.clone();
    let b = tokio::spawn(async move { l2.extended(WhoAmI).await });
    let mut st = ldap
        .streaming_search("dc=x", Scope::Subtree, "(a=b)", vec!["a"])
        .await
        .unwrap();
    let mut ids = vec![];
    for _ in 0..3 {
        ids.push(timeout(GUARD, req_rx.recv()).await.unwrap().unwrap().id);
    }
    ids.sort();
    assert_eq!(ids, vec![9, 10, 11]);
    wait_table(&ldap, &[9, 10, 11], "three in flight").await;
    ctl_tx.send(None).unwrap();
    assert!(timeout(GUARD, a).await.unwrap().unwrap().is_err());
    assert!(timeout(GUARD, b).await.unwrap().unwrap().is_err());
    assert!(timeout(GUARD, st.next()).await.unwrap().is_err());
    wait_table(&ldap, &[], "connection gone").await;
    let _ = st.finish().await;
    for _ in 0..3 {
        assert!(ldap.simple_bind("cn=x", "y").await.is_err());
        assert!(ldap
            .streaming_search("dc=x", Scope::Subtree, "(a=b)", vec!["a"])
            .await
            .is_err());
    }
    wait_table(&ldap, &[], "operations on a dead connection").await;
    assert!(ldap.is_closed());
    drop(ldap);
    drop(st);
    timeout(GUARD, server).await.expect("hang guard").unwrap();
}

// ---------- H4: the sync wrapper, whose connection task only runs inside the calls ----------

fn id_table_sync(conn: &ldap3::LdapConn) -> BTreeSet<i64> {
    let s = format!("{:?}", conn);
    let at = s.find("data: (").expect("Debug output of LdapConn shows the id table");
    let rest = &s[at..];
    let open = rest.find('{').unwrap();
    let close = rest.find('}').unwrap();
    rest[open + 1..close]
        .split(',')
        .map(|t| t.trim())
        .filter(|t| !t.is_empty())
        .map(|t| t.parse().unwrap())
        .collect()
}

#[test]
fn h4_sync_wrapper_timeouts_and_entry_stream() {
    use std::io::{Read, Write};
    let l = std::net::TcpListener::bind("127.0.0.1:0").unwrap();
    let url = format!("ldap://127.0.0.1:{}", l.local_addr().unwrap().port());
    let (seen_tx, seen_rx) = std::sync::mpsc::channel::<Req>();
    let server = std::thread::spawn(move || {
        let (mut sock, _) = l.accept().unwrap();
        let mut buf = vec![];
        loop {
            while let Some(r) = take_req(&mut buf) {
                let _ = seen_tx.send(r.clone());
                // Binds stay unanswered; a Search gets one entry, and its end only if its
                // id is even; everything else is answered at once.
                let out: Vec<Vec<u8>> = match r.op {
                    0x60 | 0x50 => vec![],
                    0x63 if r.id % 2 == 0 => vec![entry_msg(r.id, "cn=a"), done_msg(r.id, 0)],
                    0x63 => vec![entry_msg(r.id, "cn=a")],
                    0x6e => vec![result_msg(r.id, 15, 6)],
                    0x42 => return,
                    o => panic!("unexpected op {:x}", o),
                };
                for m in out {
                    sock.write_all(&m).unwrap();
                }
            }
            let mut tmp = [0u8; 4096];
            match sock.read(&mut tmp) {
                Ok(0) | Err(_) => return,
                Ok(k) => buf.extend_from_slice(&tmp[..k]),
            }
        }
    });
    let mut conn = ldap3::LdapConn::new(&url).unwrap();
    let none: BTreeSet<i64> = BTreeSet::new();
    // 1: Bind, times out
    assert!(conn.with_timeout(Duration::from_millis(20)).simple_bind("cn=x", "y").is_err());
    assert_eq!(conn.last_id(), 1);
    // 2: Abandon of it (the request to release id 1 is still waiting, too)
    conn.abandon(1).unwrap();
    // 3: Compare
    assert!(conn.compare("cn=x", "a", "b").unwrap().equal().unwrap());
    assert_eq!(id_table_sync(&conn), none, "after a timed-out Bind, its Abandon and a Compare nothing is outstanding");
    // 4: complete Search through an EntryStream
    {
        let mut es = conn
            .streaming_search("dc=x", Scope::Subtree, "(a=b)", vec!["a"])
            .unwrap();
        assert_eq!(es.last_id(), 4);
        assert!(es.next().unwrap().is_some());
        assert!(es.next().unwrap().is_none());
        assert_eq!(es.result().rc, 0);
    }
    assert_eq!(id_table_sync(&conn), none);
    // 5: a Search which times out waiting for its second entry; its id is released with the
    // next call at the latest
    let id5 = {
        let mut es = conn
            .with_timeout(Duration::from_millis(20))
            .streaming_search("dc=x", Scope::Subtree, "(a=b)", vec!["a"])
            .unwrap();
        assert!(es.next().unwrap().is_some());
        assert!(es.next().is_err());
        let id = es.last_id();
        assert_eq!(es.result().rc, 88);
        id
    };
    assert_eq!(id5, 5);
    conn.abandon(id5).unwrap(); // 6
    assert_eq!(id_table_sync(&conn), none);
    // 7: a stream dropped half-way; the Search is open on the server
    {
        let mut es = conn
            .streaming_search("dc=x", Scope::Subtree, "(a=b)", vec!["a"])
            .unwrap();
        assert!(es.next().unwrap().is_some());
    }
    assert_eq!(id_table_sync(&conn), [7].into_iter().collect());
    // 8: search() - complete
    let r = conn.search("dc=x", Scope::Subtree, "(a=b)", vec!["a"]).unwrap();
    assert_eq!(r.0.len(), 1);
    conn.abandon(7).unwrap(); // 9
    assert_eq!(id_table_sync(&conn), none);
    conn.unbind().unwrap(); // 10
    assert!(conn.compare("cn=x", "a", "b").is_err());
    assert_eq!(id_table_sync(&conn), none);
    server.join().unwrap();
    let ids: Vec<i64> = seen_rx.try_iter().map(|r| r.id).collect();
    assert_eq!(ids, (1..=10).collect::<Vec<i64>>(), "ids on the wire");
}

// ---------- H5: Unbind, or the peer closing, while other handles keep issuing operations ----------

async fn echo_server(l: TcpListener, close_after: Option<usize>) {
    let (mut sock, _) = l.accept().await.unwrap();
    let mut buf = vec![];
    let mut n = 0;
    loop {
        while let Some(r) = take_req(&mut buf) {
            n += 1;
            if r.op == 0x42 {
                return;
            }
            if let Some(c) = close_after {
                if n >= c {
                    return;
                }
            }
            let m = match r.op {
                0x6e => result_msg(r.id, 15, 6),
                0x63 => done_msg(r.id, 0),
                o => panic!("unexpected op {:x}", o),
            };
            if sock.write_all(&m).await.is_err() {
                return;
            }
        }
        let mut tmp = [0u8; 4096];
        match sock.read(&mut tmp).await {
            Ok(0) | Err(_) => return,
            Ok(k) => buf.extend_from_slice(&tmp[..k]),
        }
    }
}

#[tokio::test(flavor = "multi_thread", worker_threads = 8)]
async fn h5_connection_ending_under_load_leaves_no_id_behind() {
    for round in 0..20usize {
        let (l, url) = connect().await;
        let close_after = if round % 2 == 0 { None } else { Some(100 + round * 7) };
        let server = tokio::spawn(echo_server(l, close_after));
        let (conn, ldap) = LdapConnAsync::new(&url).await.unwrap();
        ldap3::drive!(conn);
        let mut tasks = vec![];
        for t in 0..8usize {
            let mut h = ldap.clone();
            tasks.push(tokio::spawn(async move {
                let mut failed = 0;
                for i in 0..200usize {
                    let r = if (i + t) % 3 == 0 {
                        h.search("dc=x", Scope::Base, "(a=b)", vec!["a"]).await.map(|_| ())
                    } else {
                        h.compare("cn=x", "a", "b").await.map(|_| ())
                    };
                    if r.is_err() {
                        failed += 1;
                        if failed > 5 {
                            break;
                        }
                    }
                }
            }));
        }
        if close_after.is_none() {
            let mut u = ldap.clone();
            tasks.push(tokio::spawn(async move {
                sleep(Duration::from_millis(3)).await;
                u.unbind().await.unwrap();
            }));
        }
        for t in tasks {
            timeout(GUARD, t).await.expect("hang guard").unwrap();
        }
        timeout(GUARD, server).await.expect("hang guard").unwrap();
        wait_table(&ldap, &[], "connection over, all callers returned").await;
    }
}
