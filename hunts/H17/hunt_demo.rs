// C17 - Requested TLS is never silently downgraded.
//
// DEMONSTRATION (primary): with StartTLS enabled in `LdapConnSettings` and an `ldapi://` URL,
// `LdapConnAsync::with_settings()` / `LdapConn::with_settings()` ignore the StartTLS request
// altogether: `LdapConnAsync::new_unix()` never looks at `settings.starttls`, sends no StartTLS
// exop, performs no handshake, and hands back a usable *cleartext* handle. The very first
// message the peer sees is whatever the caller does next (here: a Simple Bind carrying the
// password), in the clear. Nothing tells the caller that the requested protection is absent.
//
// The property demands: "With ... StartTLS enabled, no LDAP message other than the StartTLS
// request itself is ever sent in cleartext, and connection establishment fails - rather than
// handing back a usable cleartext handle - if the StartTLS response is not success ...",
// for all combinations of scheme, StartTLS and verification settings.
//
// DEMONSTRATION (secondary, TCP path): a StartTLS response whose result code is non-zero but
// a multiple of 2^32 (or whose ENUMERATED is empty) is taken for success, because
// `LdapResultExt::try_from_tag()` truncates the parsed u64 with `as u32`. Establishment goes
// on to the handshake and succeeds although the server refused StartTLS.
//
// Run with:
//   cd /tmp/wt-H17 && CARGO_NET_OFFLINE=true cargo test --offline --test hunt_demo

use std::time::Duration;

use ldap3::{LdapConn, LdapConnAsync, LdapConnSettings};
use tokio::io::{AsyncRead, AsyncReadExt, AsyncWriteExt};
use tokio::time::timeout;

const GUARD: Duration = Duration::from_secs(20);
const STARTTLS_OID: &[u8] = b"1.3.6.1.4.1.1466.20037";
const PASSWORD: &str = "s3cret-pa55word";

fn tlv(tag: u8, content: &[u8]) -> Vec<u8> {
    assert!(content.len() < 128);
    let mut v = vec![tag, content.len() as u8];
    v.extend_from_slice(content);
    v
}

/// LDAPMessage { id, [APPLICATION n] { ENUMERATED rc_content, "", "" } }
fn result_msg(id: u8, app_tag: u8, rc_content: &[u8]) -> Vec<u8> {
    let mut c = tlv(0x0a, rc_content);
    c.extend(tlv(0x04, b""));
    c.extend(tlv(0x04, b""));
    let mut m = tlv(0x02, &[id]);
    m.extend(tlv(app_tag, &c));
    tlv(0x30, &m)
}

async fn read_msg<S: AsyncRead + Unpin>(s: &mut S) -> std::io::Result<Vec<u8>> {
    let mut hdr = [0u8; 2];
    s.read_exact(&mut hdr).await?;
    let mut out = hdr.to_vec();
    let len = if hdr[1] < 128 {
        hdr[1] as usize
    } else {
        let n = (hdr[1] & 0x7f) as usize;
        let mut lb = vec![0u8; n];
        s.read_exact(&mut lb).await?;
        out.extend_from_slice(&lb);
        lb.iter().fold(0usize, |a, &b| (a << 8) | b as usize)
    };
    let mut body = vec![0u8; len];
    s.read_exact(&mut body).await?;
    out.extend_from_slice(&body);
    Ok(out)
}

fn contains(hay: &[u8], needle: &[u8]) -> bool {
    hay.windows(needle.len()).any(|w| w == needle)
}

fn sock_path(tag: &str) -> (std::path::PathBuf, String) {
    let p = std::env::temp_dir().join(format!("hunt-c17-{}-{}.sock", tag, std::process::id()));
    let _ = std::fs::remove_file(&p);
    let url = format!("ldapi://{}", p.to_str().unwrap().replace('/', "%2F"));
    (p, url)
}

/// A server on a Unix socket which does not do TLS: it refuses StartTLS (rc=53,
/// unwillingToPerform) and answers a Bind with success. It reports every cleartext LDAP
/// message it received.
async fn cleartext_unix_server(listener: tokio::net::UnixListener) -> Vec<Vec<u8>> {
    let (mut s, _) = listener.accept().await.unwrap();
    let mut seen = vec![];
    while let Ok(m) = read_msg(&mut s).await {
        let id = m[4];
        let resp = if contains(&m, STARTTLS_OID) {
            result_msg(id, 0x78, &[53])
        } else if m[5] == 0x60 {
            result_msg(id, 0x61, &[0])
        } else {
            seen.push(m);
            break;
        };
        seen.push(m);
        if s.write_all(&resp).await.is_err() {
            break;
        }
    }
    seen
}

#[tokio::test]
async fn ldapi_with_starttls_enabled_hands_back_a_cleartext_handle() {
    let (path, url) = sock_path("async");
    let listener = tokio::net::UnixListener::bind(&path).unwrap();
    let srv = tokio::spawn(cleartext_unix_server(listener));

    let settings = LdapConnSettings::new().set_starttls(true);
    assert!(settings.starttls(), "StartTLS is enabled in the settings");

    let established = timeout(GUARD, LdapConnAsync::with_settings(settings, &url))
        .await
        .expect("establishment must not hang");

    // What a caller who asked for StartTLS does next: bind with a password.
    let mut bind_ok = false;
    if let Ok((conn, mut ldap)) = established {
        ldap3::drive!(conn);
        bind_ok = timeout(GUARD, ldap.simple_bind("cn=admin,dc=example,dc=org", PASSWORD))
            .await
            .expect("bind must not hang")
            .map(|r| r.rc == 0)
            .unwrap_or(false);
        drop(ldap);
    }
    let seen = timeout(GUARD, srv).await.unwrap().unwrap();
    let _ = std::fs::remove_file(&path);

    let first_is_starttls = seen.first().map(|m| contains(m, STARTTLS_OID)).unwrap_or(false);
    let password_in_clear = seen.iter().any(|m| contains(m, PASSWORD.as_bytes()));

    assert!(
        !password_in_clear,
        "C17 demands that with StartTLS enabled no LDAP message other than the StartTLS request \
         is ever sent in cleartext; instead establishment over {} returned a usable cleartext \
         handle without attempting StartTLS (first message was StartTLS: {}), and the Simple \
         Bind (succeeded: {}) carried the password in the clear: {:02x?}",
        url,
        first_is_starttls,
        bind_ok,
        seen
    );
    assert!(
        seen.is_empty() || first_is_starttls,
        "C17 demands that the only cleartext message is the StartTLS request; the peer saw {:02x?}",
        seen
    );
}

#[test]
fn ldapi_with_starttls_enabled_sync_wrapper() {
    let (path, url) = sock_path("sync");
    let rt = tokio::runtime::Builder::new_multi_thread()
        .worker_threads(1)
        .enable_all()
        .build()
        .unwrap();
    let listener = rt.block_on(async { tokio::net::UnixListener::bind(&path).unwrap() });
    let srv = rt.spawn(cleartext_unix_server(listener));

    let settings = LdapConnSettings::new()
        .set_starttls(true)
        .set_conn_timeout(GUARD);
    let res = LdapConn::with_settings(settings, &url);
    let handed_back = res.is_ok();
    if let Ok(mut ldap) = res {
        let _ = ldap
            .with_timeout(GUARD)
            .simple_bind("cn=admin,dc=example,dc=org", PASSWORD);
    }
    let seen = rt.block_on(async { timeout(GUARD, srv).await.unwrap().unwrap() });
    let _ = std::fs::remove_file(&path);
    assert!(
        !handed_back,
        "C17 demands that establishment fails rather than handing back a usable cleartext \
         handle when StartTLS is enabled and was not (successfully) performed; instead \
         LdapConn::with_settings returned Ok for {} and the peer then received in clear: {:02x?}",
        url,
        seen
    );
}

// ---------------------------------------------------------------------------------------
// Secondary: a refusal whose result code is a non-zero multiple of 2^32 is read as success.

#[tokio::test]
async fn starttls_refusal_with_wide_result_code_is_taken_for_success() {
    let variants: Vec<(&str, Vec<u8>)> = vec![
        ("rc = 2^32 (0a 05 01 00 00 00 00)", vec![1, 0, 0, 0, 0]),
        ("rc = 53 * 2^32", vec![53, 0, 0, 0, 0]),
    ];
    for (name, rc) in variants {
        let l = tokio::net::TcpListener::bind("127.0.0.1:0").await.unwrap();
        let port = l.local_addr().unwrap().port();
        let srv = tokio::spawn(async move {
            let (mut s, _) = l.accept().await.unwrap();
            let req = read_msg(&mut s).await.unwrap();
            assert!(contains(&req, STARTTLS_OID));
            s.write_all(&result_msg(1, 0x78, &rc)).await.unwrap();
            // A server which refused stays in cleartext LDAP. See what the client does next.
            let mut next = [0u8; 1];
            match timeout(GUARD, s.read(&mut next)).await {
                Ok(Ok(1)) => Some(next[0]),
                _ => None,
            }
        });
        let settings = LdapConnSettings::new()
            .set_starttls(true)
            .set_no_tls_verify(true);
        let est = tokio::spawn(async move {
            LdapConnAsync::with_settings(settings, &format!("ldap://127.0.0.1:{}", port))
                .await
                .map(|_| ())
        });
        let next = timeout(GUARD, srv).await.unwrap().unwrap();
        est.abort();
        assert_eq!(
            next, None,
            "C17 demands that establishment fails when the StartTLS response is not success \
             ({}); instead the library took it for success and went on with the handshake \
             (next byte on the wire: {:02x?}, 0x16 = TLS handshake record)",
            name, next
        );
    }
}
