// Review of repair afa0e7f ("an adapted search stream survives a next() call abandoned while
// pending: the position in the adapter chain is resynchronised ...").
//
// SearchStream::resync_chain() (src/search.rs) detects an abandoned call by looking at the lock
// of the adapter just above the current chain position, and then sets the position to ZERO.
// That is only right when the call was abandoned by the user of the stream, i.e., at the
// outermost level. If the call was abandoned by an ADAPTER (an adapter which gives up its own
// stream.next() upcall, e.g. because it wraps it in a timeout or a select!, and then calls up
// the chain again, which the Adapter documentation explicitly allows: "Multiple calls up the
// chain are possible before a single result entry is returned"), the adapters below the
// abandoning one are still running and still hold their locks. The position must go back to
// the abandoning adapter (the innermost adapter whose lock is still held), not to zero.
// With the position at zero, the upcall tries to lock adapters[0], which is held by the very
// call that is making the upcall: the stream waits for itself forever.
//
// Before the repair the same sequence did not hang (the second upcall went straight to the
// inner method and returned the entry).
//
// Only public API is used: the Adapter trait is the documented extension point.

use std::time::Duration;

use async_trait::async_trait;
use ldap3::adapters::{Adapter, EntriesOnly};
use ldap3::result::{LdapResult, Result};
use ldap3::{LdapConnAsync, ResultEntry, Scope, SearchEntry, SearchStream};
use tokio::io::{AsyncReadExt, AsyncWriteExt};
use tokio::net::TcpListener;

/// An adapter which wakes up periodically while waiting for the next item (think of progress
/// reporting, or of checking a cancellation flag). It passes every item through unchanged.
#[derive(Clone, Debug)]
struct Tick {
    period: Duration,
    ticks: u32,
}

#[async_trait]
impl<'a, S, A> Adapter<'a, S, A> for Tick
where
    S: AsRef<str> + Send + Sync + 'a,
    A: AsRef<[S]> + Send + Sync + 'a,
{
    async fn start(
        &mut self,
        stream: &mut SearchStream<'a, S, A>,
        base: &str,
        scope: Scope,
        filter: &str,
        attrs: A,
    ) -> Result<()> {
        stream.start(base, scope, filter, attrs).await
    }

    async fn next(&mut self, stream: &mut SearchStream<'a, S, A>) -> Result<Option<ResultEntry>> {
        loop {
            // The upcall is given up when the period elapses, and made again.
            match tokio::time::timeout(self.period, stream.next()).await {
                Ok(res) => return res,
                Err(_) => {
                    self.ticks += 1;
                    continue;
                }
            }
        }
    }

    async fn finish(&mut self, stream: &mut SearchStream<'a, S, A>) -> LdapResult {
        stream.finish().await
    }
}

// LDAPMessage { 1, SearchResultEntry { "cn=a", {} } }
const ENTRY: &[u8] = &[
    0x30, 0x0d, 0x02, 0x01, 0x01, 0x64, 0x08, 0x04, 0x04, b'c', b'n', b'=', b'a', 0x30, 0x00,
];
// LDAPMessage { 1, SearchResultDone { success, "", "" } }
const DONE: &[u8] = &[
    0x30, 0x0c, 0x02, 0x01, 0x01, 0x65, 0x07, 0x0a, 0x01, 0x00, 0x04, 0x00, 0x04, 0x00,
];

/// A server which answers the first request (a Search, message ID 1) with one entry and the
/// final result, the entry being sent `delay` after the request has arrived.
async fn server(delay: Duration) -> String {
    let listener = TcpListener::bind("127.0.0.1:0").await.expect("bind");
    let port = listener.local_addr().expect("addr").port();
    tokio::spawn(async move {
        let (mut sock, _) = listener.accept().await.expect("accept");
        let mut buf = [0u8; 1024];
        let n = sock.read(&mut buf).await.expect("read request");
        assert!(n > 0, "no request");
        tokio::time::sleep(delay).await;
        sock.write_all(ENTRY).await.expect("write entry");
        sock.write_all(DONE).await.expect("write done");
        // keep the connection open until the client goes away
        let _ = sock.read(&mut buf).await;
    });
    format!("ldap://127.0.0.1:{}", port)
}

/// Run one search through `adapters`; the outcome of reading the stream to its end, or None
/// if that hasn't happened within five seconds.
async fn run(
    delay: Duration,
    adapters: Vec<Box<dyn Adapter<'static, &'static str, Vec<&'static str>>>>,
) -> Option<(Vec<String>, u32)> {
    let url = server(delay).await;
    let (conn, mut ldap) = LdapConnAsync::new(&url).await.expect("connect");
    ldap3::drive!(conn);
    let mut stream = ldap
        .streaming_search_with(adapters, "dc=example", Scope::Subtree, "(objectClass=*)", vec!["cn"])
        .await
        .expect("search start");
    let read_all = async {
        let mut dns = vec![];
        while let Some(re) = stream.next().await.expect("next") {
            dns.push(SearchEntry::construct(re).dn);
        }
        let res = stream.finish().await;
        (dns, res.rc)
    };
    tokio::time::timeout(Duration::from_secs(5), read_all).await.ok()
}

fn tick() -> Box<dyn Adapter<'static, &'static str, Vec<&'static str>>> {
    Box::new(Tick {
        period: Duration::from_millis(50),
        ticks: 0,
    })
}

fn entries_only() -> Box<dyn Adapter<'static, &'static str, Vec<&'static str>>> {
    Box::new(EntriesOnly::new())
}

/// Control: the adapter on its own is fine, also when its upcall is given up several times.
#[tokio::test]
async fn control_tick_alone_slow_server() {
    let got = run(Duration::from_millis(400), vec![tick()]).await;
    assert_eq!(got, Some((vec![String::from("cn=a")], 0)));
}

/// Control: the two-adapter chain is fine as long as no upcall is given up.
#[tokio::test]
async fn control_chain_fast_server() {
    let got = run(Duration::from_millis(0), vec![tick(), entries_only()]).await;
    assert_eq!(got, Some((vec![String::from("cn=a")], 0)));
}

/// The demonstration: the same chain, but the entry arrives after the first adapter has given
/// up (and repeated) its upcall.
#[tokio::test]
async fn upcall_abandoned_by_an_adapter_must_not_wedge_the_stream() {
    let got = run(Duration::from_millis(400), vec![tick(), entries_only()]).await;
    assert_eq!(
        got,
        Some((vec![String::from("cn=a")], 0)),
        "expected: the stream yields the entry cn=a, then Ok(None), and finish() returns the \
         server's result (rc 0), 400 ms after the request - the server has sent the entry and \
         the final result, every operation and search stream terminates (C04), a streaming \
         search yields exactly what the server sent (C10), and an adapter may call up the \
         chain several times before returning an item (Adapter documentation); the repair \
         afa0e7f promises that the chain position is resynchronised after an abandoned call. \
         Instead (None = nothing within 5 s): after the first adapter gave up its pending \
         stream.next() upcall, resync_chain() moved the chain position to 0 instead of 1, so \
         the repeated upcall waits for the lock of adapters[0], which its own caller holds: \
         next() never returns although the entry and the result have been received"
    );
}
