// C20 - LDAP URL parameters are extracted as RFC 4516 defines them.
//
// RFC 4516 section 2.1 ("Percent-Encoding") says which octets of a component MUST be
// percent-encoded when an LDAP URL is generated:
//   - octets which are neither in the <reserved> nor in the <unreserved> set of RFC 3986,
//   - the reserved character '?' inside a <dn>, <filter> or other element,
//   - ',' inside an <exvalue>.
// '#' is a member of <reserved> (gen-delims) and is not singled out, and the <ldapurl>
// grammar has no fragment part: "ldap://host/1.3.6.1.4.1.1466.0=#04024869,dc=example,dc=com??base"
// is a URL as RFC 4516 defines it (the DN is the '#'-hexstring example of RFC 4514), and
// libldap's ldap_url_parse, python-ldap's ldapurl and JNDI read the '#' as data.
//
// get_url_params() looks only at Url::path() and Url::query(). The url crate has cut the
// string at the first '#' (generic "fragment"), and get_url_params never looks at
// Url::fragment(), so everything from the first '#' on is silently dropped: the component
// holding the '#' is truncated, and all components after it (scope, filter, extensions -
// critical ones included) are replaced by their defaults without any error.

use ldap3::{get_url_params, LdapUrlExt, Scope};
use url::Url;

/// Percent-encoding exactly as RFC 4516 section 2.1 requires it.
fn enc_4516(s: &str, in_exvalue: bool) -> String {
    let mut out = String::new();
    for &b in s.as_bytes() {
        let unreserved = b.is_ascii_alphanumeric() || b"-._~".contains(&b);
        let reserved = b":/?#[]@!$&'()*+,;=".contains(&b);
        let must_encode = !(unreserved || reserved) || b == b'?' || (in_exvalue && b == b',');
        if must_encode {
            out.push_str(&format!("%{:02X}", b));
        } else {
            out.push(b as char);
        }
    }
    out
}

fn ldap_url(base: &str, scope: &str, filter: &str, exts: &[(&str, &str)]) -> String {
    let exts = exts
        .iter()
        .map(|(t, v)| {
            if v.is_empty() {
                t.to_string()
            } else {
                format!("{}={}", t, enc_4516(v, true))
            }
        })
        .collect::<Vec<_>>()
        .join(",");
    format!(
        "ldap://ldap.example.com/{}??{}?{}?{}",
        enc_4516(base, false),
        scope,
        enc_4516(filter, false),
        exts
    )
}

#[test]
fn hash_sign_in_a_component_truncates_the_url_parameters() {
    let mut violations: Vec<String> = vec![];

    // 1. '#' in the base DN (RFC 4514 hexstring value), scope "base", a filter and a bind name.
    {
        let base = "1.3.6.1.4.1.1466.0=#04024869,dc=example,dc=com";
        let filter = "(objectClass=person)";
        let bindname = "cn=Manager,dc=example,dc=com";
        let s = ldap_url(base, "base", filter, &[("bindname", bindname)]);
        let url = Url::parse(&s).expect("the url crate accepts the URL");
        match get_url_params(&url) {
            Err(e) => violations.push(format!("{s}: expected the components back, got error {e}")),
            Ok(p) => {
                if p.base != base {
                    violations.push(format!(
                        "{s}: C20 demands base {:?}, get_url_params returned {:?}",
                        base, p.base
                    ));
                }
                if p.scope != Scope::Base {
                    violations.push(format!(
                        "{s}: C20 demands scope Base (the URL says ?base), get_url_params returned {:?}",
                        p.scope
                    ));
                }
                if p.filter != filter {
                    violations.push(format!(
                        "{s}: C20 demands filter {:?}, get_url_params returned {:?}",
                        filter, p.filter
                    ));
                }
                match p.extensions.get(&LdapUrlExt::Bindname("".into())) {
                    Some(LdapUrlExt::Bindname(v)) if v == bindname => (),
                    other => violations.push(format!(
                        "{s}: C20 demands the extension bindname={:?}, get_url_params returned {:?}",
                        bindname, other
                    )),
                }
            }
        }
    }

    // 2. '#' in the filter; the extension list after it holds an unknown CRITICAL extension,
    //    which must be an error.
    {
        let base = "dc=example,dc=com";
        let filter = "(title=C# developer)";
        let s = ldap_url(base, "one", filter, &[("!x-must-understand", "1")]);
        let url = Url::parse(&s).expect("the url crate accepts the URL");
        match get_url_params(&url) {
            Err(_) => (),
            Ok(p) => violations.push(format!(
                "{s}: C20 demands an error for the unknown critical extension !x-must-understand; \
                 get_url_params returned Ok with filter {:?} (demanded {:?}) and extensions {:?}",
                p.filter, filter, p.extensions
            )),
        }
    }

    // 3. '#' in an extension value.
    {
        let pw = "pass#word";
        let s = ldap_url("dc=example,dc=com", "sub", "(cn=x)", &[("x-bindpw", pw), ("1.3.6.1.4.1.1466.20037", "")]);
        let url = Url::parse(&s).expect("the url crate accepts the URL");
        match get_url_params(&url) {
            Err(e) => violations.push(format!("{s}: expected the components back, got error {e}")),
            Ok(p) => {
                match p.extensions.get(&LdapUrlExt::XBindpw("".into())) {
                    Some(LdapUrlExt::XBindpw(v)) if v == pw => (),
                    other => violations.push(format!(
                        "{s}: C20 demands the extension x-bindpw={:?}, get_url_params returned {:?}",
                        pw, other
                    )),
                }
                if !p.extensions.contains(&LdapUrlExt::StartTLS) {
                    violations.push(format!(
                        "{s}: C20 demands the StartTLS extension which follows x-bindpw, it is missing: {:?}",
                        p.extensions
                    ));
                }
            }
        }
    }

    assert!(
        violations.is_empty(),
        "C20: components formatted as an RFC 4516 URL (percent-encoding of RFC 4516 section 2.1, which leaves \
         the reserved character '#' as it is) must come back unchanged from get_url_params; instead everything \
         from the first '#' on was silently dropped:\n  {}",
        violations.join("\n  ")
    );
}
