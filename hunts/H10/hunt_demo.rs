// C10 demonstration: an adapted search stream is left half-updated when a call to next() is
// given up by the caller (the future is dropped: `tokio::time::timeout(d, stream.next())` elapses,
// or another branch of a `select!` wins). SearchStream::next() increments the adapter-chain index
// `ax` before awaiting the adapter and decrements it afterwards; if the future is dropped in
// between, `ax` stays incremented for good. Every later next()/finish() then skips the adapters:
//
//  * with EntriesOnly, referrals and intermediate messages are handed to the caller, the stream
//    never becomes Done at the end of the results (it stays Active), and the next() after the end
//    panics (`self.rx.as_mut().unwrap()` on None) instead of returning Ok(None);
//  * with PagedResults, the follow-up pages are never requested: next() reports the end after
//    the first page and finish() returns that page's successful result (with a live cookie).
//
// A direct stream is not affected (rx.recv() is cancellation safe), and nothing has failed from
// the library's point of view: state() still says Active after the abandoned wait.

use std::time::Duration;

use ldap3::adapters::{EntriesOnly, PagedResults};
use ldap3::asn1::{parse_tag, PL};
use ldap3::{LdapConnAsync, ResultEntry, Scope, StreamState};
use tokio::io::{AsyncReadExt, AsyncWriteExt};
use tokio::net::{TcpListener, TcpStream};
use tokio::sync::oneshot;

// ---------- BER helpers ----------
fn tlv(tag: u8, content: &[u8]) -> Vec<u8> {
    assert!(content.len() < 128);
    let mut v = vec![tag, content.len() as u8];
    v.extend_from_slice(content);
    v
}
fn cat(parts: &[Vec<u8>]) -> Vec<u8> {
    parts.iter().flat_map(|p| p.iter().copied()).collect()
}
fn small_int(tag: u8, n: u8) -> Vec<u8> {
    assert!(n < 128);
    tlv(tag, &[n])
}
fn os(s: &[u8]) -> Vec<u8> {
    tlv(0x04, s)
}
fn ctrl(oid: &str, val: Option<&[u8]>) -> Vec<u8> {
    let mut parts = vec![os(oid.as_bytes())];
    if let Some(v) = val {
        parts.push(os(v));
    }
    tlv(0x30, &cat(&parts))
}
fn msg(id: u8, op: Vec<u8>, ctrls: Option<Vec<Vec<u8>>>) -> Vec<u8> {
    let mut parts = vec![small_int(0x02, id), op];
    if let Some(c) = ctrls {
        parts.push(tlv(0xA0, &cat(&c)));
    }
    tlv(0x30, &cat(&parts))
}
fn entry(dn: &str) -> Vec<u8> {
    tlv(0x64, &cat(&[os(dn.as_bytes()), tlv(0x30, &[])]))
}
fn reference(uri: &str) -> Vec<u8> {
    tlv(0x73, &os(uri.as_bytes()))
}
fn intermediate() -> Vec<u8> {
    tlv(0x79, &cat(&[tlv(0x80, b"1.1"), tlv(0x81, b"v")]))
}
fn done(rc: u8) -> Vec<u8> {
    tlv(0x65, &cat(&[small_int(0x0A, rc), os(b""), os(b"")]))
}
fn paged_ctrl(cookie: &[u8]) -> Vec<u8> {
    let val = tlv(0x30, &cat(&[small_int(0x02, 0), os(cookie)]));
    ctrl("1.2.840.113556.1.4.319", Some(&val))
}

// ---------- scripted peer ----------
struct Peer {
    sock: TcpStream,
    buf: Vec<u8>,
}
impl Peer {
    // Returns (message id, protocol op number) of the next request, None at end of input.
    async fn read_req(&mut self) -> Option<(u8, u8)> {
        loop {
            if !self.buf.is_empty() {
                if let Ok((rest, tag)) = parse_tag(&self.buf) {
                    let used = self.buf.len() - rest.len();
                    self.buf.drain(..used);
                    let comps = match tag.payload {
                        PL::C(c) => c,
                        _ => panic!("bad message"),
                    };
                    let id = match &comps[0].payload {
                        PL::P(b) => *b.last().unwrap(),
                        _ => panic!("bad id"),
                    };
                    return Some((id, comps[1].id as u8));
                }
            }
            let mut tmp = [0u8; 4096];
            match self.sock.read(&mut tmp).await {
                Ok(0) | Err(_) => return None,
                Ok(n) => self.buf.extend_from_slice(&tmp[..n]),
            }
        }
    }
    async fn send(&mut self, b: &[u8]) {
        self.sock.write_all(b).await.unwrap();
        self.sock.flush().await.unwrap();
    }
}
async fn setup() -> (TcpListener, String) {
    let l = TcpListener::bind("127.0.0.1:0").await.unwrap();
    let url = format!("ldap://127.0.0.1:{}", l.local_addr().unwrap().port());
    (l, url)
}
async fn accept(l: &TcpListener) -> Peer {
    let (sock, _) = l.accept().await.unwrap();
    Peer { sock, buf: vec![] }
}

fn kind(re: &ResultEntry) -> String {
    if re.is_ref() {
        return "referral".into();
    }
    if re.is_intermediate() {
        return "intermediate".into();
    }
    let dn = match &re.0.payload {
        PL::C(c) => match &c[0].payload {
            PL::P(b) => String::from_utf8_lossy(b).to_string(),
            _ => "?".into(),
        },
        _ => "?".into(),
    };
    format!("entry {}", dn)
}

// Hang guard only.
const GUARD: Duration = Duration::from_secs(10);

#[tokio::test]
async fn entries_only_stream_after_an_abandoned_wait() {
    let (l, url) = setup().await;
    let (go_tx, go_rx) = oneshot::channel::<()>();
    let srv = tokio::spawn(async move {
        let mut p = accept(&l).await;
        let (id, op) = p.read_req().await.unwrap();
        assert_eq!(op, 3, "expected a SearchRequest");
        p.send(&msg(id, entry("cn=a"), None)).await;
        // stay silent until the client has given up waiting once
        go_rx.await.unwrap();
        let mut out = vec![];
        out.extend(msg(id, reference("ldap://elsewhere/"), None));
        out.extend(msg(id, intermediate(), None));
        out.extend(msg(id, entry("cn=b"), None));
        out.extend(msg(id, done(0), Some(vec![ctrl("1.2.3.4", Some(b"fin"))])));
        p.send(&out).await;
        while p.read_req().await.is_some() {}
    });

    let (conn, mut ldap) = LdapConnAsync::new(&url).await.unwrap();
    ldap3::drive!(conn);
    let mut stream = ldap
        .streaming_search_with(
            EntriesOnly::new(),
            "dc=example",
            Scope::Subtree,
            "(objectClass=*)",
            vec!["cn"],
        )
        .await
        .unwrap();
    let first = tokio::time::timeout(GUARD, stream.next())
        .await
        .expect("hang")
        .unwrap()
        .unwrap();
    assert_eq!(kind(&first), "entry cn=a");

    // The caller bounds its wait for the next item itself; the server is silent, so it gives up.
    let waited = tokio::time::timeout(Duration::from_millis(100), stream.next()).await;
    assert!(waited.is_err(), "the server sent nothing, the wait must elapse");
    // No operation has failed: the stream is (and says it is) still in progress.
    assert_eq!(stream.state(), StreamState::Active);

    // The server now sends the rest: a referral, an intermediate message, an entry, the result.
    go_tx.send(()).unwrap();
    let mut items = vec![];
    let end = loop {
        match tokio::time::timeout(GUARD, stream.next()).await.expect("hang") {
            Ok(Some(re)) => items.push(kind(&re)),
            other => break other.map(|_| ()),
        }
    };
    assert!(end.is_ok(), "reading to the end failed: {:?}", end);
    let state_at_end = stream.state();

    // One more next() after the end, in a task of its own so that a panic can be observed.
    let after_end = tokio::spawn(async move {
        let r = stream.next().await.map(|o| o.map(|re| kind(&re)));
        let res = stream.finish().await;
        (r, res)
    })
    .await;

    assert_eq!(
        state_at_end,
        StreamState::Done,
        "C10: after next() has returned Ok(None) at the end of the server's results the stream must \
         be Done; it is still {:?} (items delivered by the EntriesOnly stream after the abandoned \
         wait: {:?}; next() after the end: {})",
        state_at_end,
        items,
        match &after_end {
            Ok((r, _)) => format!("{:?}", r),
            Err(e) if e.is_panic() => "PANICKED".to_string(),
            Err(e) => format!("{:?}", e),
        }
    );
    let (r, res) = match after_end {
        Ok(v) => v,
        Err(e) => panic!(
            "C10: next() after the end of the results must return Ok(None) without panicking; \
             the call panicked: {:?}",
            e
        ),
    };
    assert!(
        matches!(r, Ok(None)),
        "C10: next() after the end must be Ok(None), got {:?}",
        r
    );
    assert_eq!(
        items,
        vec!["entry cn=b".to_string()],
        "C10: an EntriesOnly stream yields the server's directory entries only, in order"
    );
    assert_eq!(res.rc, 0, "C10: finish() after reading to the end returns the server's result");
    assert_eq!(
        res.refs,
        vec!["ldap://elsewhere/".to_string()],
        "C10: the URIs of reference messages are merged into the result's referral list"
    );
    assert_eq!(res.ctrls.len(), 1, "C10: the final result carries the server's controls");
    drop(ldap);
    let _ = srv.await;
}

#[tokio::test]
async fn paged_stream_after_an_abandoned_wait() {
    let (l, url) = setup().await;
    let (go_tx, go_rx) = oneshot::channel::<()>();
    let srv = tokio::spawn(async move {
        let mut p = accept(&l).await;
        let (id, op) = p.read_req().await.unwrap();
        assert_eq!(op, 3, "expected a SearchRequest");
        p.send(&msg(id, entry("cn=a"), None)).await;
        go_rx.await.unwrap();
        // end of page 1, with a cookie: there is more
        let mut out = vec![];
        out.extend(msg(id, entry("cn=b"), None));
        out.extend(msg(id, done(0), Some(vec![paged_ctrl(b"more")])));
        p.send(&out).await;
        // page 2, if it is ever asked for
        let mut follow_ups = 0;
        while let Some((id, op)) = p.read_req().await {
            if op == 3 {
                follow_ups += 1;
                let mut out = vec![];
                out.extend(msg(id, entry("cn=c"), None));
                out.extend(msg(id, done(0), Some(vec![paged_ctrl(b"")])));
                p.send(&out).await;
            }
        }
        follow_ups
    });

    let (conn, mut ldap) = LdapConnAsync::new(&url).await.unwrap();
    ldap3::drive!(conn);
    let mut stream = ldap
        .streaming_search_with(
            PagedResults::new(2),
            "dc=example",
            Scope::Subtree,
            "(objectClass=*)",
            vec!["cn"],
        )
        .await
        .unwrap();
    let mut items = vec![];
    let first = tokio::time::timeout(GUARD, stream.next())
        .await
        .expect("hang")
        .unwrap()
        .unwrap();
    items.push(kind(&first));

    let waited = tokio::time::timeout(Duration::from_millis(100), stream.next()).await;
    assert!(waited.is_err(), "the server sent nothing, the wait must elapse");
    assert_eq!(stream.state(), StreamState::Active);

    go_tx.send(()).unwrap();
    let end = loop {
        match tokio::time::timeout(GUARD, stream.next()).await.expect("hang") {
            Ok(Some(re)) => items.push(kind(&re)),
            other => break other.map(|_| ()),
        }
    };
    assert!(end.is_ok(), "reading to the end failed: {:?}", end);
    let state_at_end = stream.state();
    let res = stream.finish().await;
    drop(stream);
    drop(ldap);
    let follow_ups = tokio::time::timeout(GUARD, srv).await.expect("hang").unwrap();

    assert_eq!(
        (items.clone(), state_at_end, follow_ups),
        (
            vec![
                "entry cn=a".to_string(),
                "entry cn=b".to_string(),
                "entry cn=c".to_string()
            ],
            StreamState::Done,
            1
        ),
        "C10: a paged stream read until Ok(None) yields the entries of all pages and is then Done; \
         it reported the end after {:?} in state {:?}, having asked for {} follow-up page(s), and \
         finish() returned rc={} with {} control(s) (the first page's result, cookie included)",
        items,
        state_at_end,
        follow_ups,
        res.rc,
        res.ctrls.len()
    );
    assert_eq!(res.rc, 0);
    assert!(
        res.ctrls.is_empty(),
        "C10: the final result of a completed paged search carries no live paging cookie"
    );
}
