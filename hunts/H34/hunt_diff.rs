// Differential test: independent strict RFC 4515 reference vs ldap3::parse_filter
use bytes::BytesMut;
use lber::structures::ASNTag;
use lber::write;

fn lib_enc(f: &[u8]) -> Option<Vec<u8>> {
    let t = ldap3::parse_filter(f).ok()?;
    let mut buf = BytesMut::new();
    write::encode_into(&mut buf, t.into_structure()).unwrap();
    Some(buf.to_vec())
}

#[derive(Debug, Clone, PartialEq)]
enum F {
    And(Vec<F>),
    Or(Vec<F>),
    Not(Box<F>),
    Simple(u8, Vec<u8>, Vec<u8>),
    Present(Vec<u8>),
    Substr(Vec<u8>, Vec<u8>, Vec<Vec<u8>>, Vec<u8>),
    Ext(Option<Vec<u8>>, Option<Vec<u8>>, Vec<u8>, bool),
}

fn tlv(tag: u8, body: &[u8]) -> Vec<u8> {
    let mut v = vec![tag];
    let n = body.len();
    if n < 128 {
        v.push(n as u8);
    } else if n < 256 {
        v.extend([0x81, n as u8]);
    } else if n < 65536 {
        v.extend([0x82, (n >> 8) as u8, n as u8]);
    } else {
        v.extend([0x83, (n >> 16) as u8, (n >> 8) as u8, n as u8]);
    }
    v.extend(body);
    v
}

fn ber(f: &F) -> Vec<u8> {
    match f {
        F::And(l) => tlv(0xa0, &l.iter().flat_map(ber).collect::<Vec<_>>()),
        F::Or(l) => tlv(0xa1, &l.iter().flat_map(ber).collect::<Vec<_>>()),
        F::Not(x) => tlv(0xa2, &ber(x)),
        F::Simple(t, a, v) => tlv(0xa0 | t, &[tlv(4, a), tlv(4, v)].concat()),
        F::Present(a) => tlv(0x87, a),
        F::Substr(a, i, any, fin) => {
            let mut s = vec![];
            if !i.is_empty() {
                s.extend(tlv(0x80, i));
            }
            for x in any {
                s.extend(tlv(0x81, x));
            }
            if !fin.is_empty() {
                s.extend(tlv(0x82, fin));
            }
            tlv(0xa4, &[tlv(4, a), tlv(0x30, &s)].concat())
        }
        F::Ext(rule, attr, v, dn) => {
            let mut s = vec![];
            if let Some(r) = rule {
                s.extend(tlv(0x81, r));
            }
            if let Some(a) = attr {
                s.extend(tlv(0x82, a));
            }
            s.extend(tlv(0x83, v));
            if *dn {
                s.extend(tlv(0x84, &[0xff]));
            }
            tlv(0xa9, &s)
        }
    }
}

fn is_keychar(c: u8) -> bool {
    c.is_ascii_alphanumeric() || c == b'-'
}
fn is_descr(s: &[u8]) -> bool {
    !s.is_empty() && s[0].is_ascii_alphabetic() && s.iter().all(|&c| is_keychar(c))
}
fn is_number(s: &[u8]) -> bool {
    !s.is_empty() && s.iter().all(|c| c.is_ascii_digit()) && (s.len() == 1 || s[0] != b'0')
}
// lax: a single number passes for a numericoid (the library's documented-by-test behaviour)
fn is_numericoid(s: &[u8], strict: bool) -> bool {
    let parts: Vec<&[u8]> = s.split(|&c| c == b'.').collect();
    (if strict { parts.len() >= 2 } else { true }) && parts.iter().all(|p| is_number(p))
}
fn is_oid(s: &[u8], strict: bool) -> bool {
    is_descr(s) || is_numericoid(s, strict)
}
fn is_attrdesc(s: &[u8], strict: bool) -> bool {
    let mut parts = s.split(|&c| c == b';');
    let first = parts.next().unwrap();
    is_oid(first, strict) && parts.all(|p| !p.is_empty() && p.iter().all(|&c| is_keychar(c)))
}
fn hexv(c: u8) -> Option<u8> {
    (c as char).to_digit(16).map(|d| d as u8)
}
fn unesc(s: &[u8]) -> Option<Vec<u8>> {
    let mut out = vec![];
    let mut i = 0;
    while i < s.len() {
        let c = s[i];
        if c == 0 || c == b'(' || c == b')' || c == b'*' {
            return None;
        }
        if c == b'\\' {
            if s.len() < i + 3 {
                return None;
            }
            let h = hexv(s[i + 1])?;
            let l = hexv(s[i + 2])?;
            out.push(h * 16 + l);
            i += 3;
        } else {
            out.push(c);
            i += 1;
        }
    }
    Some(out)
}

fn ref_item(s: &[u8], strict: bool) -> Option<F> {
    let p = s.iter().position(|&c| c == b'=')?;
    let (left, val) = (&s[..p], &s[p + 1..]);
    if left.is_empty() {
        return None;
    }
    let last = *left.last().unwrap();
    match last {
        b'>' | b'<' | b'~' => {
            let a = &left[..left.len() - 1];
            if !is_attrdesc(a, strict) {
                return None;
            }
            let t = match last {
                b'>' => 5,
                b'<' => 6,
                _ => 8,
            };
            Some(F::Simple(t, a.to_vec(), unesc(val)?))
        }
        b':' => {
            let e = &left[..left.len() - 1];
            let parts: Vec<&[u8]> = e.split(|&c| c == b':').collect();
            let v = unesc(val)?;
            let isdn = |x: &[u8]| x.eq_ignore_ascii_case(b"dn");
            let (attr, rest) = (parts[0], &parts[1..]);
            let attr_o = if attr.is_empty() {
                None
            } else {
                if !is_attrdesc(attr, strict) {
                    return None;
                }
                Some(attr.to_vec())
            };
            let (dn, rule): (bool, Option<&[u8]>) = match rest.len() {
                0 => (false, None),
                1 => {
                    if isdn(rest[0]) && attr_o.is_some() {
                        (true, None)
                    } else {
                        (false, Some(rest[0]))
                    }
                }
                2 => {
                    if !isdn(rest[0]) {
                        return None;
                    }
                    (true, Some(rest[1]))
                }
                _ => return None,
            };
            if let Some(r) = rule {
                if !is_oid(r, strict) {
                    return None;
                }
            }
            if attr_o.is_none() && rule.is_none() {
                return None;
            }
            Some(F::Ext(rule.map(|r| r.to_vec()), attr_o, v, dn))
        }
        _ => {
            if !is_attrdesc(left, strict) {
                return None;
            }
            let pieces: Vec<&[u8]> = val.split(|&c| c == b'*').collect();
            let mut dec = vec![];
            for p in &pieces {
                dec.push(unesc(p)?);
            }
            if dec.len() == 1 {
                return Some(F::Simple(3, left.to_vec(), dec.pop().unwrap()));
            }
            if dec.len() == 2 && dec[0].is_empty() && dec[1].is_empty() {
                return Some(F::Present(left.to_vec()));
            }
            let fin = dec.pop().unwrap();
            let ini = dec.remove(0);
            if dec.iter().any(|x| x.is_empty()) {
                return None;
            }
            Some(F::Substr(left.to_vec(), ini, dec, fin))
        }
    }
}

fn ref_filter<'a>(s: &'a [u8], strict: bool) -> Option<(F, &'a [u8])> {
    if s.first() != Some(&b'(') {
        return None;
    }
    let s = &s[1..];
    let (f, rest) = match s.first()? {
        b'&' | b'|' => {
            let mut l = vec![];
            let mut r = &s[1..];
            while r.first() == Some(&b'(') {
                let (f, r2) = ref_filter(r, strict)?;
                l.push(f);
                r = r2;
            }
            (if s[0] == b'&' { F::And(l) } else { F::Or(l) }, r)
        }
        b'!' => {
            let (f, r) = ref_filter(&s[1..], strict)?;
            (F::Not(Box::new(f)), r)
        }
        _ => {
            let e = s.iter().position(|&c| c == b')')?;
            (ref_item(&s[..e], strict)?, &s[e..])
        }
    };
    if rest.first() != Some(&b')') {
        return None;
    }
    Some((f, &rest[1..]))
}

fn ref_parse(s: &[u8], strict: bool) -> Option<F> {
    if s.first() == Some(&b'(') {
        let (f, r) = ref_filter(s, strict)?;
        if r.is_empty() {
            Some(f)
        } else {
            None
        }
    } else {
        ref_item(s, strict)
    }
}

fn check(s: &[u8], bad: &mut Vec<String>) {
    let lib = std::panic::catch_unwind(|| lib_enc(s));
    let lib = match lib {
        Ok(l) => l,
        Err(_) => {
            bad.push(format!("PANIC on {:?}", String::from_utf8_lossy(s)));
            return;
        }
    };
    let lax = ref_parse(s, false).map(|f| ber(&f));
    if lib != lax && bad.len() < 60 {
        bad.push(format!(
            "{:?}: lib {:x?} ref {:x?}",
            String::from_utf8_lossy(s),
            lib,
            lax
        ));
    }
}

fn exhaust(alpha: &[u8], maxlen: usize, prefix: &[u8], suffix: &[u8]) -> Vec<String> {
    let mut bad = vec![];
    let mut count = 0u64;
    for len in 0..=maxlen {
        let mut idx = vec![0usize; len];
        loop {
            let mut s = prefix.to_vec();
            s.extend(idx.iter().map(|&i| alpha[i]));
            s.extend(suffix);
            check(&s, &mut bad);
            count += 1;
            let mut k = len;
            loop {
                if k == 0 {
                    break;
                }
                k -= 1;
                idx[k] += 1;
                if idx[k] < alpha.len() {
                    break;
                }
                idx[k] = 0;
                if k == 0 {
                    k = usize::MAX;
                    break;
                }
            }
            if len == 0 || k == usize::MAX {
                break;
            }
        }
    }
    eprintln!("checked {} strings, {} diffs", count, bad.len());
    bad
}

#[test]
fn diff_items() {
    let bad = exhaust(b"adn:=*\\2;-.0<", 6, b"", b"");
    for b in &bad {
        eprintln!("{}", b);
    }
    assert!(bad.is_empty());
}

#[test]
fn diff_items_after_attr() {
    let bad = exhaust(b"adn:=*\\2c~>N", 6, b"(a", b")");
    for b in &bad {
        eprintln!("{}", b);
    }
    assert!(bad.is_empty());
}

#[test]
fn diff_struct() {
    let bad = exhaust(b"()&|!a=*", 8, b"", b"");
    for b in &bad {
        eprintln!("{}", b);
    }
    assert!(bad.is_empty());
}

#[test]
fn diff_values() {
    let bad = exhaust(b"*\\2aAfFgG5c)(\0 \xc4\x87", 5, b"(a=", b")");
    for b in &bad {
        eprintln!("{}", b);
    }
    assert!(bad.is_empty());
}

struct Rng(u64);
impl Rng {
    fn next(&mut self) -> u64 {
        self.0 ^= self.0 << 13;
        self.0 ^= self.0 >> 7;
        self.0 ^= self.0 << 17;
        self.0
    }
    fn below(&mut self, n: usize) -> usize {
        (self.next() % n as u64) as usize
    }
}

#[test]
fn diff_lengths() {
    let mut bad = vec![];
    for n in [0usize, 1, 126, 127, 128, 129, 255, 256, 257, 65535, 65536, 70000] {
        let v = "x".repeat(n);
        for f in [
            format!("(a={})", v),
            format!("(a=*{}*)", v),
            format!("(a={}*{}*{})", v, v, v),
            format!("({}=*)", if n == 0 { "a".to_string() } else { "a".repeat(n) }),
            format!("(a:{}:=q)", if n == 0 { "a".to_string() } else { "a".repeat(n) }),
            format!("(&{})", "(a=b)".repeat(n)),
            format!("(|{})", format!("(!(a={}))", v).repeat(3)),
            format!("(a={})", "\\2a".repeat(n)),
        ] {
            check(f.as_bytes(), &mut bad);
        }
    }
    for b in &bad {
        eprintln!("{}", &b[..b.len().min(300)]);
    }
    assert!(bad.is_empty());
}

#[test]
fn diff_random_bytes() {
    let mut bad = vec![];
    let mut r = Rng(0x9e3779b97f4a7c15);
    let alpha: Vec<u8> = b"()&|!=<>~*\\:;.-adnDN0129fFgz \0\xff\x80\xc4\x87".to_vec();
    for _ in 0..3_000_000 {
        let len = r.below(14);
        let s: Vec<u8> = (0..len)
            .map(|_| {
                if r.below(10) == 0 {
                    r.next() as u8
                } else {
                    alpha[r.below(alpha.len())]
                }
            })
            .collect();
        check(&s, &mut bad);
    }
    // mutate valid seeds
    let seeds: Vec<&[u8]> = vec![
        b"(&(a=b*c*d)(|(x;y:dn:1.2.3:=\\5c\\2a)(!(q>=1)))(o~=z)(p<=\\00)(n=*))",
        b"(cn:dn:=x)", b"(:dn:caseExactMatch:=x)", b"(a;lang-en=*\\2a*)", b"1.2.840=a*",
    ];
    for _ in 0..3_000_000 {
        let mut s = seeds[r.below(seeds.len())].to_vec();
        for _ in 0..1 + r.below(3) {
            if s.is_empty() { break; }
            let p = r.below(s.len());
            match r.below(3) {
                0 => { s.remove(p); }
                1 => s.insert(p, alpha[r.below(alpha.len())]),
                _ => s[p] = alpha[r.below(alpha.len())],
            }
        }
        check(&s, &mut bad);
    }
    for b in &bad {
        eprintln!("{}", b);
    }
    assert!(bad.is_empty());
}
