// C08 - Filter strings compile to the RFC 4511 filter they denote.
//
// RFC 4515:   extensible   = ( attr [dnattrs] [matchingrule] COLON EQUALS assertionvalue )
//                          / ( [dnattrs] matchingrule COLON EQUALS assertionvalue )
//             dnattrs      = COLON "dn"
//             matchingrule = COLON oid          ; oid = descr / numericoid
//
// "(:dn:=x)" is in that grammar, and in exactly one way: there is no attr, so a matching
// rule is mandatory; the only reading is  [no dnattrs]  matchingrule = ":dn"  ":="  "x",
// i.e. MatchingRuleAssertion { matchingRule [1] "dn", matchValue [3] "x" } (dnAttributes
// FALSE, absent).  The library's dn_mrule() commits to reading ":dn" as the dnattrs flag
// as soon as a ':' follows it, then finds no matching rule and gives up instead of
// falling back, so this member of the grammar is refused (LdapError::FilterParsing).

use bytes::BytesMut;
use lber::structures::ASNTag;
use lber::write;
use ldap3::{LdapConnAsync, Scope, SearchEntry};
use std::time::Duration;
use tokio::io::{AsyncReadExt, AsyncWriteExt};
use tokio::net::TcpListener;

fn enc(f: &str) -> Option<Vec<u8>> {
    let t = ldap3::parse_filter(f).ok()?;
    let mut buf = BytesMut::new();
    write::encode_into(&mut buf, t.into_structure()).unwrap();
    Some(buf.to_vec())
}

// extensibleMatch [9] { matchingRule [1] "dn", matchValue [3] "x" }
const EXPECTED: &[u8] = b"\xa9\x07\x81\x02dn\x83\x01x";

#[test]
fn c08_matching_rule_named_dn_without_attr_parser() {
    // controls: the neighbours of the string are accepted and mean what they say
    assert_eq!(
        enc("(cn:dn:=x)").as_deref(),
        Some(&b"\xa9\x0a\x82\x02cn\x83\x01x\x84\x01\xff"[..]),
        "control: attr + dnattrs"
    );
    assert_eq!(
        enc("(:dn:dn:=x)").as_deref(),
        Some(&b"\xa9\x0a\x81\x02dn\x83\x01x\x84\x01\xff"[..]),
        "control: dnattrs + matching rule named dn"
    );
    assert_eq!(
        enc("(:dnx:=x)").as_deref(),
        Some(&b"\xa9\x08\x81\x03dnx\x83\x01x"[..]),
        "control: matching rule whose name starts with dn"
    );
    for f in ["(:dn:=x)", ":dn:=x", "(:DN:=x)", "(&(a=b)(:dn:=x))"] {
        let got = enc(f);
        assert!(
            got.is_some(),
            "C08 demands that every filter string in the RFC 4515 grammar is accepted; {:?} is \
             `[dnattrs] matchingrule \":=\" value` with no dnattrs and the matching rule `dn` \
             (the only derivation the grammar has for it), but parse_filter() rejected it",
            f
        );
    }
    assert_eq!(
        enc("(:dn:=x)").as_deref(),
        Some(EXPECTED),
        "C08 demands the BER of the syntax tree: extensibleMatch {{ matchingRule \"dn\", matchValue \"x\" }}"
    );
}

#[tokio::test(flavor = "multi_thread", worker_threads = 2)]
async fn c08_matching_rule_named_dn_without_attr_search() {
    let listener = TcpListener::bind("127.0.0.1:0").await.unwrap();
    let port = listener.local_addr().unwrap().port();
    let (tx, rx) = tokio::sync::oneshot::channel::<Vec<u8>>();
    tokio::spawn(async move {
        let (mut s, _) = listener.accept().await.unwrap();
        let mut buf = vec![0u8; 4096];
        let mut got = Vec::new();
        // one small SearchRequest; read until the whole envelope (short-form length) is in
        loop {
            match tokio::time::timeout(Duration::from_secs(5), s.read(&mut buf)).await {
                Ok(Ok(n)) if n > 0 => {
                    got.extend_from_slice(&buf[..n]);
                    if got.len() >= 2 && got.len() >= 2 + got[1] as usize {
                        break;
                    }
                }
                _ => break,
            }
        }
        let _ = tx.send(got);
        // SearchResultDone, success, message id 1
        let _ = s
            .write_all(b"\x30\x0c\x02\x01\x01\x65\x07\x0a\x01\x00\x04\x00\x04\x00")
            .await;
        tokio::time::sleep(Duration::from_secs(2)).await;
    });

    let (conn, mut ldap) = LdapConnAsync::new(&format!("ldap://127.0.0.1:{}", port))
        .await
        .unwrap();
    ldap3::drive!(conn);
    let res = tokio::time::timeout(
        Duration::from_secs(10),
        ldap.search("dc=example", Scope::Subtree, "(:dn:=x)", vec!["1.1"]),
    )
    .await
    .expect("hang guard");
    match res {
        Ok(sr) => {
            let ldap3::SearchResult(entries, r) = sr;
            assert_eq!(r.rc, 0);
            assert_eq!(entries.into_iter().map(SearchEntry::construct).count(), 0);
            let req = rx.await.unwrap();
            assert!(
                req.windows(EXPECTED.len()).any(|w| w == EXPECTED),
                "C08 demands that the SearchRequest carries extensibleMatch {{ matchingRule \"dn\", \
                 matchValue \"x\" }}; the request on the wire was {:x?}",
                req
            );
        }
        Err(e) => panic!(
            "C08 demands that search() accepts the RFC 4515 filter \"(:dn:=x)\" (matching rule `dn`, \
             no attribute, no dnattrs) and sends extensibleMatch {{ matchingRule \"dn\", matchValue \"x\" }}; \
             instead search() failed locally with: {:?}",
            e
        ),
    }
}
