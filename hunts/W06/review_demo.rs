// Review of the repair 319b37f ("StartTLS during connection establishment fails instead of never
// returning when the server closes the connection ... before the request has been picked up by
// the connection task"), with the same root cause shown on an established connection (C04, and
// the assumption behind b7cf7b5's "an operation that can't be sent gives its ID back").
//
// WHAT HAPPENS
//
// new_tcp() spawns the connection task (single_op -> turn(SingleOp)) and then waits with
//
//     tokio::try_join!(rx.map_err(LdapError::from), ldap.extended(StartTLS))
//
// When the server has closed the connection, turn() sees the end of the stream with
// op_received == false and - since 319b37f - returns Err("connection closed"); the connection
// structure is dropped, and the repair counts on that drop to fail the StartTLS operation:
// either op_call()'s tx.send() fails (receiver gone), or the queued request is destroyed
// together with the receiver, which drops its oneshot sender and wakes op_call() with an error.
//
// There is a third outcome. If op_call()'s tx.send() runs WHILE the receiver is being dropped
// (the connection task runs on a runtime worker, new_tcp() on the thread which called block_on /
// #[tokio::main] - exactly the set-up of examples/search_starttls_noverify.rs), the send has
// passed the "closed" check but has not published its slot yet when the receiver drains the
// queue. tokio then keeps the message inside the channel until the LAST SENDER is gone
// (tokio::sync::mpsc, chan.rs, Rx::drop: close(); drain what is readable now) - and the last
// sender is the `ldap` handle which op_call() itself borrows while it waits for the answer.
// send() returned Ok, the request is never read, its oneshot sender is never dropped:
// ldap.extended(StartTLS) waits forever. The first half of the try_join! has long completed
// with Ok(Err("connection closed")) - an Ok as far as try_join! is concerned, so the error which
// the repair produces is never looked at.
//
// The same window exists for every operation on an established connection: one which is issued
// while the connection task ends (drive() returning) is neither refused nor failed; it hangs for
// good, because the handle it is invoked on keeps the channel alive.
//
// The window is narrow (about one in 10^4 attempts here), so each test repeats the scenario on
// four threads until the first attempt that doesn't return, for at most BUDGET seconds; on this
// machine (16 cores, debug build) the first one shows up after 0.1 to 9 s, in 30 of 30 runs.
// At least two CPU cores are needed. Nothing but the public API is used.

use std::sync::atomic::{AtomicBool, AtomicUsize, Ordering};
use std::sync::{Arc, Mutex};
use std::time::{Duration, Instant};

use ldap3::exop::WhoAmI;
use ldap3::{LdapConnAsync, LdapConnSettings};
use tokio::net::TcpListener;
use tokio::time::timeout;

/// How long to keep trying before giving up (the test PASSES if no attempt hangs in that time).
const BUDGET: Duration = Duration::from_secs(120);
/// An attempt which has not returned after this long is taken for one that never returns.
/// A normal attempt takes about 0.1 ms, all of it on the loopback interface.
const HANG: Duration = Duration::from_secs(10);
const THREADS: usize = 4;

#[derive(Clone, Copy, PartialEq)]
enum Scenario {
    /// Connection establishment with StartTLS; no connection timeout is set.
    StartTls,
    /// A WhoAmI right after a plain connection has been set up and its driver spawned.
    Established,
}

/// Returns (number of attempts made, number of the attempt which didn't return, if any).
fn hammer(scenario: Scenario) -> (usize, Option<usize>) {
    let stop = Arc::new(AtomicBool::new(false));
    let count = Arc::new(AtomicUsize::new(0));
    let stuck = Arc::new(Mutex::new(None));
    let start = Instant::now();
    let mut threads = vec![];
    for _ in 0..THREADS {
        let stop = stop.clone();
        let count = count.clone();
        let stuck = stuck.clone();
        threads.push(std::thread::spawn(move || {
            // The library's caller sits in block_on() of a multi-thread runtime, as under
            // #[tokio::main]; what the library spawns runs on the workers.
            let rt = tokio::runtime::Builder::new_multi_thread()
                .worker_threads(2)
                .enable_all()
                .build()
                .unwrap();
            rt.block_on(async move {
                let l = TcpListener::bind("127.0.0.1:0").await.unwrap();
                let url = format!("ldap://127.0.0.1:{}", l.local_addr().unwrap().port());
                // the server: accept, close at once
                tokio::spawn(async move {
                    loop {
                        let (s, _) = l.accept().await.unwrap();
                        drop(s);
                    }
                });
                while !stop.load(Ordering::Relaxed) && start.elapsed() < BUDGET {
                    let n = count.fetch_add(1, Ordering::Relaxed) + 1;
                    let returned = match scenario {
                        Scenario::StartTls => {
                            let settings = LdapConnSettings::new()
                                .set_starttls(true)
                                .set_no_tls_verify(true);
                            match timeout(HANG, LdapConnAsync::with_settings(settings, &url)).await
                            {
                                Ok(Ok(_)) => panic!(
                                    "C17: a handle was handed back although no TLS session exists"
                                ),
                                Ok(Err(_)) => true,
                                Err(_) => false,
                            }
                        }
                        Scenario::Established => {
                            let (conn, mut ldap) = LdapConnAsync::new(&url).await.unwrap();
                            ldap3::drive!(conn);
                            match timeout(HANG, ldap.extended(WhoAmI)).await {
                                Ok(Ok(_)) => panic!("C03: an answer which no server has sent"),
                                Ok(Err(_)) => true,
                                Err(_) => false,
                            }
                        }
                    };
                    if !returned {
                        stuck.lock().unwrap().get_or_insert(n);
                        stop.store(true, Ordering::Relaxed);
                    }
                }
            });
            rt.shutdown_background();
        }));
    }
    for t in threads {
        t.join().unwrap();
    }
    let stuck = *stuck.lock().unwrap();
    (count.load(Ordering::Relaxed), stuck)
}

#[test]
fn starttls_establishment_returns_when_the_server_closes_at_once() {
    let (attempts, stuck) = hammer(Scenario::StartTls);
    assert!(
        stuck.is_none(),
        "EXPECTED: LdapConnAsync::with_settings(starttls = true) returns an error every time the \
         server closes the connection right after accepting it - property C04 (every operation \
         terminates; losing the connection fails all pending work), C18 (unreachable endpoints \
         return an error), and the statement of repair 319b37f itself: 'StartTLS during connection \
         establishment fails instead of never returning when the server closes the connection ... \
         before the request has been picked up by the connection task'. \
         GOT: attempt {} of {} had not returned after {:?} (no connection timeout was set, so it \
         never will): the connection task has ended with 'connection closed' and dropped the \
         connection, but new_tcp() still waits in try_join! for ldap.extended(StartTLS), whose \
         request was queued while the operation channel's receiver was being dropped - send() \
         said Ok, nobody will read it, and the handle which waits for the answer is the sender \
         that keeps the channel (and the request's result sender) alive.",
        stuck.unwrap(),
        attempts,
        HANG
    );
}

#[test]
fn operation_issued_while_the_connection_task_ends_returns() {
    let (attempts, stuck) = hammer(Scenario::Established);
    assert!(
        stuck.is_none(),
        "EXPECTED: an operation invoked on a handle whose server has just closed the connection \
         returns an error - property C04: 'when the server closes or resets the connection ... \
         each operation or stream still waiting for a response returns an error (it never hangs) \
         ... and later operations on the handle fail immediately'; b7cf7b5 assumes the same two \
         outcomes (the send fails, or the queued operation is failed by the connection's end). \
         GOT: the WhoAmI of attempt {} of {} had not returned after {:?} (no timeout was set on \
         it, so it never will): its request entered the operation channel while drive() was \
         dropping the receiver, was neither refused nor destroyed with it, and the waiting handle \
         itself keeps the channel alive.",
        stuck.unwrap(),
        attempts,
        HANG
    );
}
