// Review checks for the repairs 43fc4a8, 74a1ddb, 319b37f, b7cf7b5, 51c3376, 597c4a6.
//
// Every test talks to a scripted in-process TCP server which speaks raw LDAP bytes.
// The BER helpers below are written independently of the library's codec.

use std::collections::HashSet;
use std::time::Duration;

use async_trait::async_trait;
use ldap3::adapters::{Adapter, EntriesOnly, PagedResults, SoloMarker};
use ldap3::exop::WhoAmI;
use ldap3::result::{LdapError, LdapResult, Result};
use ldap3::{
    LdapConn, LdapConnAsync, LdapConnSettings, ResultEntry, Scope, SearchEntry, SearchOptions,
    SearchStream,
};
use tokio::io::{AsyncReadExt, AsyncWriteExt};
use tokio::net::{TcpListener, TcpStream};
use tokio::time::timeout;

// ---------------------------------------------------------------- BER helpers

fn len_octets(n: usize) -> Vec<u8> {
    if n < 128 {
        vec![n as u8]
    } else if n < 256 {
        vec![0x81, n as u8]
    } else {
        vec![0x82, (n >> 8) as u8, n as u8]
    }
}

fn tlv(tag: u8, content: &[u8]) -> Vec<u8> {
    let mut v = vec![tag];
    v.extend(len_octets(content.len()));
    v.extend_from_slice(content);
    v
}

fn cat(parts: &[Vec<u8>]) -> Vec<u8> {
    parts.iter().flat_map(|p| p.iter().copied()).collect()
}

fn int(tag: u8, v: i64) -> Vec<u8> {
    let mut b = v.to_be_bytes().to_vec();
    while b.len() > 1 && ((b[0] == 0 && b[1] & 0x80 == 0) || (b[0] == 0xff && b[1] & 0x80 != 0)) {
        b.remove(0);
    }
    tlv(tag, &b)
}

fn ostr(s: &[u8]) -> Vec<u8> {
    tlv(0x04, s)
}

/// LDAPResult components: resultCode, matchedDN, diagnosticMessage.
fn result_body(rc: i64, matched: &str, text: &str) -> Vec<u8> {
    cat(&[int(0x0a, rc), ostr(matched.as_bytes()), ostr(text.as_bytes())])
}

fn msg(id: i64, op: Vec<u8>) -> Vec<u8> {
    tlv(0x30, &cat(&[int(0x02, id), op]))
}

fn msg_ctrl(id: i64, op: Vec<u8>, ctrls: Vec<u8>) -> Vec<u8> {
    tlv(0x30, &cat(&[int(0x02, id), op, tlv(0xa0, &ctrls)]))
}

fn entry(id: i64, dn: &str) -> Vec<u8> {
    let attr = tlv(
        0x30,
        &cat(&[ostr(b"cn"), tlv(0x31, &ostr(dn.as_bytes()))]),
    );
    msg(id, tlv(0x64, &cat(&[ostr(dn.as_bytes()), tlv(0x30, &attr)])))
}

fn search_done(id: i64, rc: i64) -> Vec<u8> {
    msg(id, tlv(0x65, &result_body(rc, "", "")))
}

fn paged_ctrl(cookie: &[u8]) -> Vec<u8> {
    let val = tlv(0x30, &cat(&[int(0x02, 0), ostr(cookie)]));
    tlv(
        0x30,
        &cat(&[ostr(b"1.2.840.113556.1.4.319"), ostr(&val)]),
    )
}

/// Read one element: (tag, content, rest).
fn rd(b: &[u8]) -> (u8, &[u8], &[u8]) {
    let tag = b[0];
    let (len, hdr) = if b[1] < 128 {
        (b[1] as usize, 2)
    } else {
        let n = (b[1] & 0x7f) as usize;
        let mut l = 0usize;
        for i in 0..n {
            l = (l << 8) | b[2 + i] as usize;
        }
        (l, 2 + n)
    };
    (tag, &b[hdr..hdr + len], &b[hdr + len..])
}

fn uint(b: &[u8]) -> i64 {
    b.iter().fold(0i64, |a, &o| (a << 8) | o as i64)
}

#[derive(Debug, Clone)]
struct Req {
    id: i64,
    op: u8,
    body: Vec<u8>,
    ctrls: Option<Vec<u8>>,
}

#[derive(Debug, PartialEq)]
struct SearchParams {
    base: String,
    scope: i64,
    deref: i64,
    sizelimit: i64,
    timelimit: i64,
    typesonly: bool,
}

impl Req {
    fn search_params(&self) -> SearchParams {
        assert_eq!(self.op, 0x63, "not a SearchRequest: {:?}", self);
        let (_, base, r) = rd(&self.body);
        let (_, scope, r) = rd(r);
        let (_, deref, r) = rd(r);
        let (_, size, r) = rd(r);
        let (_, time, r) = rd(r);
        let (_, types, _) = rd(r);
        SearchParams {
            base: String::from_utf8(base.to_vec()).unwrap(),
            scope: uint(scope),
            deref: uint(deref),
            sizelimit: uint(size),
            timelimit: uint(time),
            typesonly: types[0] != 0,
        }
    }
}

async fn read_req(s: &mut TcpStream) -> Option<Req> {
    let mut hdr = [0u8; 2];
    if s.read_exact(&mut hdr).await.is_err() {
        return None;
    }
    let mut raw = hdr.to_vec();
    let len = if hdr[1] < 128 {
        hdr[1] as usize
    } else {
        let n = (hdr[1] & 0x7f) as usize;
        let mut lb = vec![0u8; n];
        s.read_exact(&mut lb).await.ok()?;
        raw.extend(&lb);
        lb.iter().fold(0usize, |a, &o| (a << 8) | o as usize)
    };
    let mut body = vec![0u8; len];
    s.read_exact(&mut body).await.ok()?;
    raw.extend(&body);
    let (_, content, _) = rd(&raw);
    let (_, id, r) = rd(content);
    let (op, opbody, r) = rd(r);
    let ctrls = if r.is_empty() {
        None
    } else {
        let (_, c, _) = rd(r);
        Some(c.to_vec())
    };
    Some(Req {
        id: uint(id),
        op,
        body: opbody.to_vec(),
        ctrls,
    })
}

async fn listen() -> (TcpListener, String) {
    let l = TcpListener::bind("127.0.0.1:0").await.unwrap();
    let url = format!("ldap://127.0.0.1:{}", l.local_addr().unwrap().port());
    (l, url)
}

const T: Duration = Duration::from_secs(5);

// ---------------------------------------------------------------- 43fc4a8

/// Search options given to a non-Search operation are discarded (documented at
/// Ldap::with_search_options), and a Search still gets the ones given to it.
#[tokio::test]
async fn search_options_async() {
    let (l, url) = listen().await;
    let srv = tokio::spawn(async move {
        let (mut s, _) = l.accept().await.unwrap();
        let mut seen = vec![];
        while let Some(r) = read_req(&mut s).await {
            match r.op {
                0x6e => s
                    .write_all(&msg(r.id, tlv(0x6f, &result_body(6, "", ""))))
                    .await
                    .unwrap(),
                0x63 => s.write_all(&search_done(r.id, 0)).await.unwrap(),
                0x77 => s
                    .write_all(&msg(r.id, tlv(0x78, &result_body(0, "", ""))))
                    .await
                    .unwrap(),
                _ => (),
            }
            seen.push(r);
        }
        seen
    });
    let (conn, mut ldap) = LdapConnAsync::new(&url).await.unwrap();
    ldap3::drive!(conn);
    let opts = SearchOptions::new().sizelimit(7).typesonly(true);
    ldap.with_search_options(opts.clone())
        .compare("cn=a", "cn", "a")
        .await
        .unwrap();
    ldap.search("dc=one", Scope::Base, "(a=b)", vec!["cn"])
        .await
        .unwrap();
    ldap.with_search_options(opts.clone())
        .search("dc=two", Scope::Base, "(a=b)", vec!["cn"])
        .await
        .unwrap();
    ldap.search("dc=three", Scope::Base, "(a=b)", vec!["cn"])
        .await
        .unwrap();
    ldap.with_search_options(opts.clone())
        .extended(WhoAmI)
        .await
        .unwrap();
    ldap.search("dc=four", Scope::Base, "(a=b)", vec!["cn"])
        .await
        .unwrap();
    // a filter which doesn't parse: the options must not survive the failed Search
    assert!(ldap
        .with_search_options(opts.clone())
        .search("dc=bad", Scope::Base, "(a=b", vec!["cn"])
        .await
        .is_err());
    ldap.search("dc=five", Scope::Base, "(a=b)", vec!["cn"])
        .await
        .unwrap();
    drop(ldap);
    let seen = timeout(T, srv).await.unwrap().unwrap();
    let searches: Vec<_> = seen
        .iter()
        .filter(|r| r.op == 0x63)
        .map(|r| r.search_params())
        .collect();
    let lim: Vec<_> = searches
        .iter()
        .map(|p| (p.base.clone(), p.sizelimit, p.typesonly))
        .collect();
    assert_eq!(
        lim,
        vec![
            ("dc=one".to_string(), 0, false),
            ("dc=two".to_string(), 7, true),
            ("dc=three".to_string(), 0, false),
            ("dc=four".to_string(), 0, false),
            ("dc=five".to_string(), 0, false),
        ],
        "C02: search options affect exactly the next operation"
    );
}

#[test]
fn search_options_sync() {
    let std_l = std::net::TcpListener::bind("127.0.0.1:0").unwrap();
    let url = format!("ldap://127.0.0.1:{}", std_l.local_addr().unwrap().port());
    let srv = std::thread::spawn(move || {
        let rt = tokio::runtime::Builder::new_current_thread()
            .enable_all()
            .build()
            .unwrap();
        rt.block_on(async move {
            std_l.set_nonblocking(true).unwrap();
            let l = TcpListener::from_std(std_l).unwrap();
            let (mut s, _) = l.accept().await.unwrap();
            let mut seen = vec![];
            while let Some(r) = read_req(&mut s).await {
                match r.op {
                    0x4a => s
                        .write_all(&msg(r.id, tlv(0x6b, &result_body(0, "", ""))))
                        .await
                        .unwrap(),
                    0x63 => {
                        s.write_all(&entry(r.id, "cn=x")).await.unwrap();
                        s.write_all(&search_done(r.id, 0)).await.unwrap()
                    }
                    _ => (),
                }
                seen.push(r);
            }
            seen
        })
    });
    let mut ldap = LdapConn::new(&url).unwrap();
    let opts = SearchOptions::new().sizelimit(9);
    ldap.with_search_options(opts.clone())
        .delete("cn=a")
        .unwrap();
    {
        let mut st = ldap
            .streaming_search("dc=one", Scope::Base, "(a=b)", vec!["cn"])
            .unwrap();
        while let Some(_e) = st.next().unwrap() {}
        assert_eq!(st.result().rc, 0);
    }
    {
        let mut st = ldap
            .with_search_options(opts.clone())
            .streaming_search_with(EntriesOnly::new(), "dc=two", Scope::Base, "(a=b)", vec!["cn"])
            .unwrap();
        while let Some(_e) = st.next().unwrap() {}
        assert_eq!(st.result().rc, 0);
    }
    ldap.search("dc=three", Scope::Base, "(a=b)", vec!["cn"])
        .unwrap();
    drop(ldap);
    let seen = srv.join().unwrap();
    let lim: Vec<_> = seen
        .iter()
        .filter(|r| r.op == 0x63)
        .map(|r| r.search_params())
        .map(|p| (p.base, p.sizelimit))
        .collect();
    assert_eq!(
        lim,
        vec![
            ("dc=one".to_string(), 0),
            ("dc=two".to_string(), 9),
            ("dc=three".to_string(), 0)
        ],
        "C14/C02: the sync wrapper discards search options exactly like the async handle"
    );
}

/// The options ride on every page of a paged search, in both adapter orders, and on nothing
/// after it.
#[tokio::test]
async fn search_options_paged() {
    for order in 0..2 {
        let (l, url) = listen().await;
        let srv = tokio::spawn(async move {
            let (mut s, _) = l.accept().await.unwrap();
            let mut seen = vec![];
            let mut page = 0;
            while let Some(r) = read_req(&mut s).await {
                if r.op == 0x63 {
                    let paged = r.ctrls.is_some();
                    s.write_all(&entry(r.id, &format!("cn=e{}", page)))
                        .await
                        .unwrap();
                    let cookie: &[u8] = if paged && page < 2 { b"ck" } else { b"" };
                    let done = tlv(0x65, &result_body(0, "", ""));
                    if paged {
                        s.write_all(&msg_ctrl(r.id, done, paged_ctrl(cookie)))
                            .await
                            .unwrap();
                    } else {
                        s.write_all(&msg(r.id, done)).await.unwrap();
                    }
                    page += 1;
                }
                seen.push(r);
            }
            seen
        });
        let (conn, mut ldap) = LdapConnAsync::new(&url).await.unwrap();
        ldap3::drive!(conn);
        let adapters: Vec<Box<dyn Adapter<_, _>>> = if order == 0 {
            vec![
                Box::new(EntriesOnly::new()),
                Box::new(PagedResults::new(1)),
            ]
        } else {
            vec![
                Box::new(PagedResults::new(1)),
                Box::new(EntriesOnly::new()),
            ]
        };
        let mut st = ldap
            .with_search_options(SearchOptions::new().sizelimit(5).timelimit(3))
            .streaming_search_with(adapters, "dc=p", Scope::Subtree, "(a=b)", vec!["cn"])
            .await
            .unwrap();
        let mut dns = vec![];
        while let Some(e) = st.next().await.unwrap() {
            dns.push(SearchEntry::construct(e).dn);
        }
        let res = st.finish().await;
        assert_eq!(res.rc, 0);
        assert_eq!(dns, vec!["cn=e0", "cn=e1", "cn=e2"]);
        ldap.search("dc=after", Scope::Base, "(a=b)", vec!["cn"])
            .await
            .unwrap();
        drop(st);
        drop(ldap);
        let seen = timeout(T, srv).await.unwrap().unwrap();
        let lim: Vec<_> = seen
            .iter()
            .filter(|r| r.op == 0x63)
            .map(|r| r.search_params())
            .map(|p| (p.base, p.sizelimit, p.timelimit))
            .collect();
        assert_eq!(
            lim,
            vec![
                ("dc=p".to_string(), 5, 3),
                ("dc=p".to_string(), 5, 3),
                ("dc=p".to_string(), 5, 3),
                ("dc=after".to_string(), 0, 0)
            ],
            "C16/C02 (adapter order {})",
            order
        );
    }
}

// ---------------------------------------------------------------- 74a1ddb, 597c4a6, 51c3376

/// One malformed answer per connection; the operation must fail with an error (no panic, no
/// hang), a well-formed variant of the same answer must be accepted.
#[tokio::test]
async fn malformed_results() {
    // (name, op body of the response, well-formed?)
    let body_ok = result_body(0, "", "");
    let cases: Vec<(&str, Vec<u8>, bool)> = vec![
        ("plain success", body_ok.clone(), true),
        (
            "non-minimal length octets (X.690 8.1.3.5, legal in BER)",
            cat(&[vec![0x0a, 0x81, 0x01, 0x00], vec![0x04, 0x82, 0x00, 0x00], ostr(b"")]),
            true,
        ),
        (
            "result code 128 needs a leading zero octet",
            cat(&[vec![0x0a, 0x02, 0x00, 0x80], ostr(b""), ostr(b"")]),
            true,
        ),
        (
            "referral with URIs",
            cat(&[
                int(0x0a, 10),
                ostr(b""),
                ostr(b""),
                tlv(0xa3, &cat(&[ostr(b"ldap://a/"), ostr(b"ldap://b/")])),
            ]),
            true,
        ),
        (
            "unknown trailing element (extensibility, RFC 4511 4.)",
            cat(&[body_ok.clone(), tlv(0x9f, b"x")]),
            true,
        ),
        (
            "ENUMERATED without content (597c4a6)",
            cat(&[vec![0x0a, 0x00], ostr(b""), ostr(b"")]),
            false,
        ),
        (
            "length octet 0x80 on the diagnostic message (51c3376)",
            cat(&[int(0x0a, 0), ostr(b""), vec![0x04, 0x80]]),
            false,
        ),
        (
            "result code of 9 octets",
            cat(&[
                vec![0x0a, 0x09, 1, 0, 0, 0, 0, 0, 0, 0, 0],
                ostr(b""),
                ostr(b""),
            ]),
            false,
        ),
        ("missing diagnostic message", cat(&[int(0x0a, 0), ostr(b"")]), false),
        (
            "diagnostic message not UTF-8",
            cat(&[int(0x0a, 0), ostr(b""), ostr(&[0xff, 0xfe])]),
            false,
        ),
        (
            "primitive referral",
            cat(&[body_ok.clone(), tlv(0x83, b"ldap://a/")]),
            false,
        ),
        ("result code is an INTEGER", cat(&[int(0x02, 0), ostr(b""), ostr(b"")]), false),
    ];
    for (name, body, ok) in cases {
        // kind 0: Delete (single result), 1: search() (EntriesOnly), 2: direct stream
        for kind in 0..3 {
            let (l, url) = listen().await;
            let body2 = body.clone();
            let srv = tokio::spawn(async move {
                let (mut s, _) = l.accept().await.unwrap();
                let mut n = 0;
                while let Some(r) = read_req(&mut s).await {
                    n += 1;
                    let tag = match r.op {
                        0x4a => 0x6b,
                        0x63 => 0x65,
                        0x77 => 0x78,
                        _ => continue,
                    };
                    // the second request on the connection always gets a good answer
                    let b = if n == 1 { body2.clone() } else { result_body(0, "", "") };
                    if s.write_all(&msg(r.id, tlv(tag, &b))).await.is_err() {
                        break;
                    }
                }
            });
            let (conn, mut ldap) = LdapConnAsync::new(&url).await.unwrap();
            ldap3::drive!(conn);
            let what = format!("{} / kind {}", name, kind);
            let got_ok = match kind {
                0 => timeout(T, ldap.delete("cn=x"))
                    .await
                    .unwrap_or_else(|_| panic!("C04: delete hangs: {}", what))
                    .is_ok(),
                1 => timeout(T, ldap.search("dc=x", Scope::Base, "(a=b)", vec!["cn"]))
                    .await
                    .unwrap_or_else(|_| panic!("C04: search hangs: {}", what))
                    .map(|r| r.1.rc == 0 || r.1.rc == 10 || r.1.rc == 128)
                    .unwrap_or(false),
                _ => {
                    let mut st = ldap
                        .streaming_search("dc=x", Scope::Base, "(a=b)", vec!["cn"])
                        .await
                        .unwrap();
                    let n = timeout(T, st.next())
                        .await
                        .unwrap_or_else(|_| panic!("C04: next hangs: {}", what));
                    let res = st.finish().await;
                    match n {
                        Ok(None) => res.rc != 88,
                        Ok(Some(_)) => panic!("an entry out of nowhere: {}", what),
                        Err(_) => {
                            assert_eq!(res.rc, 88, "C10: finish() after a failure: {}", what);
                            false
                        }
                    }
                }
            };
            assert_eq!(
                got_ok, ok,
                "C03/C11: {}: expected the response to be {}",
                what,
                if ok { "accepted" } else { "refused with an error" }
            );
            if kind == 0 && !ok && !body.ends_with(&[0x04, 0x80]) {
                // A malformed LDAPResult in a well-formed envelope fails that operation only.
                let r = timeout(T, ldap.extended(WhoAmI))
                    .await
                    .unwrap_or_else(|_| panic!("C04: op after a malformed result hangs: {}", what));
                assert!(r.is_ok(), "the connection should still serve: {}: {:?}", what, r);
            }
            drop(ldap);
            let _ = timeout(T, srv).await;
        }
    }
}

// ---------------------------------------------------------------- 319b37f, 597c4a6 (StartTLS)

/// Connection establishment with StartTLS must fail, in bounded time and without a connection
/// timeout being set, for every server behaviour short of a successful handshake (C17, C18).
#[tokio::test(flavor = "multi_thread", worker_threads = 4)]
async fn starttls_failures() {
    // 0: close at once; 1: unsolicited message, then close; 2: unsolicited message at once, wait for
    // the request, close; 3: answer with an ENUMERATED without content; 4: answer rc=2;
    // 5: answer success with a non-TLS peer (handshake fails); 6: answer under another ID, close;
    // 7: IntermediateResponse then close; 8: malformed result
    for case in 0..9 {
        for _rep in 0..20 {
            let (l, url) = listen().await;
            let srv = tokio::spawn(async move {
                let (mut s, _) = l.accept().await.unwrap();
                let nod = msg(
                    0,
                    tlv(
                        0x78,
                        &cat(&[result_body(52, "", "bye"), tlv(0x8a, b"1.3.6.1.4.1.1466.20036")]),
                    ),
                );
                match case {
                    0 => (),
                    1 => {
                        let _ = s.write_all(&nod).await;
                    }
                    2 => {
                        let _ = s.write_all(&nod).await;
                        let _ = read_req(&mut s).await;
                    }
                    3 => {
                        let r = read_req(&mut s).await.unwrap();
                        let b = cat(&[vec![0x0a, 0x00], ostr(b""), ostr(b"")]);
                        let _ = s.write_all(&msg(r.id, tlv(0x78, &b))).await;
                        let mut buf = [0u8; 64];
                        let _ = timeout(Duration::from_millis(300), s.read(&mut buf)).await;
                    }
                    4 => {
                        let r = read_req(&mut s).await.unwrap();
                        let _ = s
                            .write_all(&msg(r.id, tlv(0x78, &result_body(2, "", "no"))))
                            .await;
                        let mut buf = [0u8; 64];
                        let _ = timeout(Duration::from_millis(300), s.read(&mut buf)).await;
                    }
                    5 => {
                        let r = read_req(&mut s).await.unwrap();
                        let _ = s
                            .write_all(&msg(r.id, tlv(0x78, &result_body(0, "", ""))))
                            .await;
                        // then answer the ClientHello with LDAP bytes
                        let mut buf = [0u8; 16];
                        let _ = s.read(&mut buf).await;
                        let _ = s
                            .write_all(&msg(2, tlv(0x61, &result_body(0, "", ""))))
                            .await;
                    }
                    6 => {
                        let r = read_req(&mut s).await.unwrap();
                        let _ = s
                            .write_all(&msg(r.id + 1, tlv(0x78, &result_body(0, "", ""))))
                            .await;
                    }
                    7 => {
                        let r = read_req(&mut s).await.unwrap();
                        let _ = s.write_all(&msg(r.id, tlv(0x79, &[]))).await;
                    }
                    _ => {
                        let r = read_req(&mut s).await.unwrap();
                        let _ = s
                            .write_all(&msg(r.id, tlv(0x78, &cat(&[int(0x0a, 0), ostr(b"")]))))
                            .await;
                        let mut buf = [0u8; 64];
                        let _ = timeout(Duration::from_millis(300), s.read(&mut buf)).await;
                    }
                }
            });
            let settings = LdapConnSettings::new()
                .set_starttls(true)
                .set_no_tls_verify(true);
            let res = timeout(T, LdapConnAsync::with_settings(settings, &url)).await;
            match res {
                Err(_) => panic!(
                    "C04/C18: StartTLS establishment never returns (server behaviour {})",
                    case
                ),
                Ok(Ok(_)) => panic!(
                    "C17: establishment handed back a handle although TLS was not set up (server behaviour {})",
                    case
                ),
                Ok(Err(_)) => (),
            }
            let _ = timeout(T, srv).await;
        }
    }
}

/// The same through the sync constructor.
#[test]
fn starttls_failures_sync() {
    for case in 0..3 {
        let std_l = std::net::TcpListener::bind("127.0.0.1:0").unwrap();
        let url = format!("ldap://127.0.0.1:{}", std_l.local_addr().unwrap().port());
        let srv = std::thread::spawn(move || {
            use std::io::{Read, Write};
            let (mut s, _) = std_l.accept().unwrap();
            let nod = msg(0, tlv(0x78, &result_body(52, "", "bye")));
            match case {
                0 => (),
                1 => {
                    let _ = s.write_all(&nod);
                }
                _ => {
                    let mut buf = [0u8; 128];
                    let _ = s.read(&mut buf);
                    let b = cat(&[vec![0x0a, 0x00], ostr(b""), ostr(b"")]);
                    let _ = s.write_all(&msg(1, tlv(0x78, &b)));
                    s.set_read_timeout(Some(Duration::from_millis(300))).unwrap();
                    let _ = s.read(&mut buf);
                }
            }
        });
        let (tx, rx) = std::sync::mpsc::channel();
        std::thread::spawn(move || {
            let settings = LdapConnSettings::new()
                .set_starttls(true)
                .set_no_tls_verify(true);
            let r = LdapConn::with_settings(settings, &url).map(|_| ());
            let _ = tx.send(r);
        });
        match rx.recv_timeout(T) {
            Err(_) => panic!("C14/C04: the sync constructor never returns (case {})", case),
            Ok(Ok(())) => panic!("C17: cleartext handle handed back (case {})", case),
            Ok(Err(_)) => (),
        }
        srv.join().unwrap();
    }
}

// ---------------------------------------------------------------- b7cf7b5 and user-written adapters

/// Fails with an error of its own after `n` entries.
#[derive(Clone, Debug)]
struct FailAfter(usize);
impl SoloMarker for FailAfter {}

#[async_trait]
impl<'a, S, A> Adapter<'a, S, A> for FailAfter
where
    S: AsRef<str> + Send + Sync + 'a,
    A: AsRef<[S]> + Send + Sync + 'a,
{
    async fn start(
        &mut self,
        stream: &mut SearchStream<'a, S, A>,
        base: &str,
        scope: Scope,
        filter: &str,
        attrs: A,
    ) -> Result<()> {
        stream.start(base, scope, filter, attrs).await
    }
    async fn next(&mut self, stream: &mut SearchStream<'a, S, A>) -> Result<Option<ResultEntry>> {
        if self.0 == 0 {
            return Err(LdapError::AdapterInit(String::from("enough")));
        }
        self.0 -= 1;
        stream.next().await
    }
    async fn finish(&mut self, stream: &mut SearchStream<'a, S, A>) -> LdapResult {
        stream.finish().await
    }
}

/// Wraps every call up the chain in a timeout, and retries next() once.
#[derive(Clone, Debug)]
struct Tick(Duration);
impl SoloMarker for Tick {}

#[async_trait]
impl<'a, S, A> Adapter<'a, S, A> for Tick
where
    S: AsRef<str> + Send + Sync + 'a,
    A: AsRef<[S]> + Send + Sync + 'a,
{
    async fn start(
        &mut self,
        stream: &mut SearchStream<'a, S, A>,
        base: &str,
        scope: Scope,
        filter: &str,
        attrs: A,
    ) -> Result<()> {
        match timeout(T, stream.start(base, scope, filter, attrs)).await {
            Ok(r) => r,
            Err(_) => Err(LdapError::AdapterInit(String::from("start: tick"))),
        }
    }
    async fn next(&mut self, stream: &mut SearchStream<'a, S, A>) -> Result<Option<ResultEntry>> {
        for _ in 0..2 {
            if let Ok(r) = timeout(self.0, stream.next()).await {
                return r;
            }
        }
        Err(LdapError::AdapterInit(String::from("next: tick")))
    }
    async fn finish(&mut self, stream: &mut SearchStream<'a, S, A>) -> LdapResult {
        stream.finish().await
    }
}

/// After the server has gone away everything pending fails, later operations fail at once, and
/// a connection which is then re-used for nothing leaves nothing hanging (C04).
#[tokio::test]
async fn connection_gone() {
    let (l, url) = listen().await;
    let srv = tokio::spawn(async move {
        let (mut s, _) = l.accept().await.unwrap();
        // answer the first search with one entry, swallow two more requests, then close
        let r = read_req(&mut s).await.unwrap();
        s.write_all(&entry(r.id, "cn=one")).await.unwrap();
        let _ = read_req(&mut s).await.unwrap();
        let _ = read_req(&mut s).await.unwrap();
    });
    let (conn, mut ldap) = LdapConnAsync::new(&url).await.unwrap();
    let drv = tokio::spawn(conn.drive());
    let mut st = ldap
        .streaming_search_with(
            Tick(Duration::from_secs(2)),
            "dc=x",
            Scope::Subtree,
            "(a=b)",
            vec!["cn"],
        )
        .await
        .unwrap();
    assert!(st.next().await.unwrap().is_some());
    let mut l2 = ldap.clone();
    let mut l3 = ldap.clone();
    let (a, b, c) = tokio::join!(
        timeout(T, st.next()),
        timeout(T, l2.delete("cn=a")),
        timeout(T, l3.compare("cn=a", "cn", "a")),
    );
    assert!(a.expect("C04: next() hangs").is_err());
    assert!(b.expect("C04: delete hangs").is_err());
    assert!(c.expect("C04: compare hangs").is_err());
    assert_eq!(st.finish().await.rc, 88);
    assert_eq!(st.finish().await.rc, 80);
    let _ = timeout(T, drv).await.expect("C04: the driver doesn't end");
    for _ in 0..3 {
        assert!(timeout(T, ldap.delete("cn=a")).await.unwrap().is_err());
        assert!(timeout(
            T,
            ldap.with_timeout(Duration::from_millis(50))
                .search("dc=x", Scope::Base, "(a=b)", vec!["cn"])
        )
        .await
        .unwrap()
        .is_err());
    }
    assert!(ldap.is_closed());
    let _ = srv.await;
}

/// IDs and routing with operations given up before the driver has seen them, with user-written
/// adapters on top (C01, C12, C13): every later operation still gets its own answer.
#[tokio::test]
async fn given_up_operations() {
    let (l, url) = listen().await;
    let srv = tokio::spawn(async move {
        let (mut s, _) = l.accept().await.unwrap();
        let mut ids = vec![];
        while let Some(r) = read_req(&mut s).await {
            ids.push((r.op, r.id));
            match r.op {
                // Delete: answer late, with the DN in the diagnostic text
                0x4a => {
                    let dn = String::from_utf8(r.body.clone()).unwrap();
                    tokio::time::sleep(Duration::from_millis(30)).await;
                    s.write_all(&msg(r.id, tlv(0x6b, &result_body(0, "", &dn))))
                        .await
                        .unwrap()
                }
                0x63 => {
                    let p = r.search_params();
                    s.write_all(&entry(r.id, &format!("cn=1,{}", p.base)))
                        .await
                        .unwrap();
                    s.write_all(&entry(r.id, &format!("cn=2,{}", p.base)))
                        .await
                        .unwrap();
                    s.write_all(&search_done(r.id, 0)).await.unwrap();
                }
                _ => (),
            }
        }
        ids
    });
    let (conn, mut ldap) = LdapConnAsync::new(&url).await.unwrap();
    ldap3::drive!(conn);
    for round in 0..20 {
        // given up by the library's own timeout, and by the caller dropping the future
        let r = ldap
            .with_timeout(Duration::ZERO)
            .delete(&format!("cn=t{}", round))
            .await;
        assert!(r.is_err());
        let r = timeout(Duration::ZERO, ldap.delete(&format!("cn=d{}", round))).await;
        assert!(r.is_err());
        let r = ldap
            .with_timeout(Duration::ZERO)
            .streaming_search_with(
                FailAfter(1),
                &format!("dc=t{}", round),
                Scope::Subtree,
                "(a=b)",
                vec!["cn"],
            )
            .await;
        if let Ok(mut st) = r {
            let _ = st.next().await;
            let _ = st.next().await;
            let _ = st.finish().await;
        }
        // then the real work
        let dn = format!("cn=real{}", round);
        let res = timeout(T, ldap.delete(&dn)).await.unwrap().unwrap();
        assert_eq!(res.text, dn, "C01: a Delete got another operation's answer");
        let base = format!("dc=real{}", round);
        let mut st = ldap
            .streaming_search_with(
                vec![
                    Box::new(Tick(Duration::from_secs(2))) as Box<dyn Adapter<_, _>>,
                    Box::new(FailAfter(1)),
                ],
                &base,
                Scope::Subtree,
                "(a=b)",
                vec!["cn"],
            )
            .await
            .unwrap();
        let e = st.next().await.unwrap().unwrap();
        assert_eq!(SearchEntry::construct(e).dn, format!("cn=1,{}", base));
        assert!(st.next().await.is_err());
        assert_eq!(st.finish().await.rc, 88);
        let (es, res) = ldap
            .search(&base, Scope::Subtree, "(a=b)", vec!["cn"])
            .await
            .unwrap()
            .success()
            .unwrap();
        assert_eq!(es.len(), 2, "C10: search() lost or gained entries");
        assert_eq!(res.rc, 0);
    }
    drop(ldap);
    let ids = timeout(T, srv).await.unwrap().unwrap();
    let mut seen = HashSet::new();
    for (_, id) in &ids {
        assert!(
            *id >= 1 && seen.insert(*id),
            "C05: message ID {} used twice in {:?}",
            id,
            ids
        );
    }
}

// ---------------------------------------------------------------- with the verification hooks only

#[cfg(ldap3_verif)]
mod hooks {
    use super::*;

    async fn settle(ldap: &ldap3::Ldap, what: &str) {
        for _ in 0..200 {
            if ldap.verif_id_table().1.is_empty() {
                return;
            }
            tokio::time::sleep(Duration::from_millis(10)).await;
        }
        panic!("C13: IDs still reserved with nothing outstanding ({}): {:?}", what, ldap.verif_id_table());
    }

    #[tokio::test]
    async fn id_table_after_given_up_ops() {
        let (l, url) = listen().await;
        let srv = tokio::spawn(async move {
            let (mut s, _) = l.accept().await.unwrap();
            while let Some(r) = read_req(&mut s).await {
                match r.op {
                    0x4a => {
                        tokio::time::sleep(Duration::from_millis(20)).await;
                        s.write_all(&msg(r.id, tlv(0x6b, &result_body(0, "", "")))).await.unwrap()
                    }
                    0x63 => {
                        s.write_all(&entry(r.id, "cn=1")).await.unwrap();
                        s.write_all(&entry(r.id, "cn=2")).await.unwrap();
                        s.write_all(&search_done(r.id, 0)).await.unwrap();
                    }
                    _ => (),
                }
            }
        });
        let (conn, mut ldap) = LdapConnAsync::new(&url).await.unwrap();
        let gauges = conn.verif_gauges();
        ldap3::drive!(conn);
        for round in 0..10 {
            let _ = ldap.with_timeout(Duration::ZERO).delete("cn=t").await;
            settle(&ldap, "library timeout, single").await;
            let _ = timeout(Duration::ZERO, ldap.delete("cn=d")).await;
            settle(&ldap, "dropped future, single").await;
            let r = ldap
                .with_timeout(Duration::ZERO)
                .streaming_search("dc=t", Scope::Subtree, "(a=b)", vec!["cn"])
                .await;
            if let Ok(mut st) = r {
                let _ = st.next().await;
                let _ = st.finish().await;
            }
            settle(&ldap, "library timeout, search").await;
            let r = timeout(
                Duration::ZERO,
                ldap.streaming_search("dc=t", Scope::Subtree, "(a=b)", vec!["cn"]),
            )
            .await;
            if let Ok(Ok(mut st)) = r {
                let _ = st.finish().await;
            }
            settle(&ldap, "dropped future, search start").await;
            // adapters failing on their own, finishing early, timing out
            let mut st = ldap
                .streaming_search_with(FailAfter(1), "dc=f", Scope::Subtree, "(a=b)", vec!["cn"])
                .await
                .unwrap();
            let _ = st.next().await;
            assert!(st.next().await.is_err());
            let _ = st.finish().await;
            settle(&ldap, "FailAfter").await;
            let mut st = ldap
                .streaming_search_with(
                    vec![
                        Box::new(PagedResults::new(2)) as Box<dyn Adapter<_, _>>,
                        Box::new(Tick(Duration::from_secs(1))),
                        Box::new(FailAfter(round % 3)),
                    ],
                    "dc=f",
                    Scope::Subtree,
                    "(a=b)",
                    vec!["cn"],
                )
                .await
                .unwrap();
            while let Ok(Some(_)) = st.next().await {}
            let _ = st.finish().await;
            settle(&ldap, "Paged/Tick/FailAfter").await;
            let mut st = ldap
                .streaming_search("dc=f", Scope::Subtree, "(a=b)", vec!["cn"])
                .await
                .unwrap();
            let _ = st.next().await;
            drop(st);
            // a dropped stream is cleaned up when the next item for it arrives
            settle(&ldap, "dropped stream").await;
        }
        tokio::time::sleep(Duration::from_millis(100)).await;
        // one more turn of the driver so that the gauges are fresh
        let _ = ldap.delete("cn=z").await;
        let _ = ldap.delete("cn=z").await;
        let g = gauges.lock().unwrap().clone();
        assert!(g.1.is_empty(), "C13: search routing state left behind: {:?}", g);
        drop(ldap);
        let _ = timeout(T, srv).await;
    }

    #[tokio::test]
    async fn id_table_after_connection_end() {
        for how in 0..3 {
            let (l, url) = listen().await;
            let srv = tokio::spawn(async move {
                let (mut s, _) = l.accept().await.unwrap();
                let _ = read_req(&mut s).await;
                let _ = read_req(&mut s).await;
                if how == 1 {
                    let _ = s.write_all(&[0x30, 0x80]).await;
                    tokio::time::sleep(Duration::from_millis(100)).await;
                }
                if how == 2 {
                    while read_req(&mut s).await.is_some() {}
                }
            });
            let (conn, mut ldap) = LdapConnAsync::new(&url).await.unwrap();
            let drv = tokio::spawn(conn.drive());
            let mut l2 = ldap.clone();
            let mut l3 = ldap.clone();
            let unbind = async {
                if how == 2 {
                    tokio::time::sleep(Duration::from_millis(50)).await;
                    let _ = l3.unbind().await;
                }
            };
            let (a, b, _) = tokio::join!(
                timeout(T, ldap.delete("cn=a")),
                timeout(T, l2.search("dc=x", Scope::Base, "(a=b)", vec!["cn"])),
                unbind
            );
            assert!(a.unwrap().is_err());
            assert!(b.unwrap().is_err());
            let _ = timeout(T, drv).await.expect("driver ends");
            assert!(
                ldap.verif_id_table().1.is_empty(),
                "C13: IDs reserved on a dead connection (how={}): {:?}",
                how,
                ldap.verif_id_table()
            );
            let _ = ldap.delete("cn=b").await;
            let _ = ldap.streaming_search("dc=x", Scope::Base, "(a=b)", vec!["cn"]).await;
            assert!(ldap.verif_id_table().1.is_empty());
            let _ = timeout(T, srv).await;
        }
    }
}

/// C18: the connection timeout bounds the whole establishment, StartTLS exchange and handshake
/// included, in the async and in the sync constructor.
#[test]
fn starttls_conn_timeout() {
    for case in 0..2 {
        for sync in [false, true] {
            let std_l = std::net::TcpListener::bind("127.0.0.1:0").unwrap();
            let url = format!("ldap://127.0.0.1:{}", std_l.local_addr().unwrap().port());
            let (stop_tx, stop_rx) = std::sync::mpsc::channel::<()>();
            let srv = std::thread::spawn(move || {
                use std::io::{Read, Write};
                let (mut s, _) = std_l.accept().unwrap();
                let mut buf = [0u8; 128];
                let _ = s.read(&mut buf);
                if case == 1 {
                    // success, then silence during the handshake
                    let _ = s.write_all(&msg(1, tlv(0x78, &result_body(0, "", ""))));
                }
                let _ = stop_rx.recv_timeout(Duration::from_secs(10));
            });
            let (tx, rx) = std::sync::mpsc::channel();
            std::thread::spawn(move || {
                let settings = LdapConnSettings::new()
                    .set_starttls(true)
                    .set_no_tls_verify(true)
                    .set_conn_timeout(Duration::from_millis(300));
                let r = if sync {
                    LdapConn::with_settings(settings, &url).map(|_| ())
                } else {
                    let rt = tokio::runtime::Builder::new_multi_thread()
                        .enable_all()
                        .build()
                        .unwrap();
                    rt.block_on(LdapConnAsync::with_settings(settings, &url))
                        .map(|_| ())
                };
                let _ = tx.send(r);
            });
            match rx.recv_timeout(T) {
                Err(_) => panic!("C18: no connection timeout (case {}, sync {})", case, sync),
                Ok(Ok(())) => panic!("C17: handle handed back (case {}, sync {})", case, sync),
                Ok(Err(_)) => (),
            }
            let _ = stop_tx.send(());
            srv.join().unwrap();
        }
    }
}

/// 319b37f, success path: a real TLS peer (native-tls acceptor with the key pair under data/tls).
/// Whatever the server sends in the clear around the StartTLS response, the session which comes
/// out is protected and uncontaminated (C17), and usable (C04).
#[tokio::test(flavor = "multi_thread", worker_threads = 4)]
async fn starttls_success_paths() {
    let cert = std::fs::read(concat!(env!("CARGO_MANIFEST_DIR"), "/data/tls/cert.pem")).unwrap();
    let key = std::fs::read(concat!(env!("CARGO_MANIFEST_DIR"), "/data/tls/key.pem")).unwrap();
    for case in 0..4 {
        for _rep in 0..5 {
            let ident = native_tls::Identity::from_pkcs8(&cert, &key).unwrap();
            let acceptor =
                tokio_native_tls::TlsAcceptor::from(native_tls::TlsAcceptor::new(ident).unwrap());
            let (l, url) = listen().await;
            let srv = tokio::spawn(async move {
                let (mut s, _) = l.accept().await.unwrap();
                let nod = msg(0, tlv(0x78, &result_body(52, "", "hello")));
                if case == 1 {
                    s.write_all(&nod).await.unwrap();
                }
                let r = read_req(&mut s).await.unwrap();
                assert_eq!(r.op, 0x77);
                let mut out = vec![];
                if case == 3 {
                    out.extend(msg(r.id, tlv(0x79, &[])));
                }
                out.extend(msg(r.id, tlv(0x78, &result_body(0, "", ""))));
                if case == 2 {
                    // injected: a successful BindResponse for the ID the client will use next
                    out.extend(msg(r.id + 1, tlv(0x61, &result_body(0, "", "injected"))));
                }
                s.write_all(&out).await.unwrap();
                let mut tls = match acceptor.accept(s).await {
                    Ok(t) => t,
                    Err(_) => return,
                };
                // one request over TLS: a Bind, refused
                let mut hdr = [0u8; 2];
                if tls.read_exact(&mut hdr).await.is_err() {
                    return;
                }
                let mut body = vec![0u8; hdr[1] as usize];
                tls.read_exact(&mut body).await.unwrap();
                let (_, id, _) = rd(&body);
                let id = uint(id);
                tls.write_all(&msg(id, tlv(0x61, &result_body(49, "", "over tls"))))
                    .await
                    .unwrap();
                let mut buf = [0u8; 64];
                let _ = timeout(Duration::from_millis(500), tls.read(&mut buf)).await;
            });
            let settings = LdapConnSettings::new()
                .set_starttls(true)
                .set_no_tls_verify(true);
            let res = timeout(T, LdapConnAsync::with_settings(settings, &url))
                .await
                .unwrap_or_else(|_| panic!("C04: establishment hangs (case {})", case));
            let (conn, mut ldap) = match res {
                Ok(p) => p,
                Err(e) => {
                    // refusing the connection is a safe answer to injected bytes
                    assert!(case == 2, "establishment failed (case {}): {:?}", case, e);
                    let _ = timeout(T, srv).await;
                    continue;
                }
            };
            ldap3::drive!(conn);
            let r = timeout(T, ldap.simple_bind("cn=x", "pw"))
                .await
                .unwrap_or_else(|_| panic!("C04: bind over TLS hangs (case {})", case));
            match r {
                Ok(res) => {
                    assert_eq!(
                        (res.rc, res.text.as_str()),
                        (49, "over tls"),
                        "C17: the Bind was answered by bytes sent in the clear (case {})",
                        case
                    );
                }
                Err(e) => assert!(case == 2, "bind failed (case {}): {:?}", case, e),
            }
            drop(ldap);
            let _ = timeout(T, srv).await;
        }
    }
}
