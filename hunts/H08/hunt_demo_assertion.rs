// C08, secondary finding: malformed filter strings "are rejected with an error, never a panic".
//
// The filter string compiler is also reachable through the public control constructors
// ldap3::controls::Assertion::new(filter) (RFC 4528) and ldap3::controls::MatchedValues::new(filter)
// (RFC 3876). Both convert to RawControl with `parse(filter).expect("filter")`
// (src/controls_impl/assertion.rs, src/controls_impl/matched_values.rs), so a filter string with an
// unbalanced parenthesis, a malformed escape or an unescaped special character - e.g. an assertion filter
// assembled from a value which was not passed through ldap_escape() - panics in the caller's task instead
// of yielding an error; the constructors return RawControl, there is no error path at all.

use ldap3::controls::{Assertion, MatchedValues};

#[test]
fn malformed_assertion_filter_is_an_error_not_a_panic() {
    let mut panicked = vec![];
    for f in ["(cn=a)b)", "(cn=a", "(cn=a\\2)", "(cn=a**)", "(=a)"] {
        if std::panic::catch_unwind(|| Assertion::new(f)).is_err() {
            panicked.push(format!("Assertion::new({:?})", f));
        }
    }
    for f in ["((cn=a)b))", "((cn=a)", "((cn=a\\2))"] {
        if std::panic::catch_unwind(|| MatchedValues::new(f)).is_err() {
            panicked.push(format!("MatchedValues::new({:?})", f));
        }
    }
    assert!(
        panicked.is_empty(),
        "C08 demands that malformed filter strings are rejected with an error, never a panic; these calls \
         panicked: {}",
        panicked.join(", ")
    );
}
