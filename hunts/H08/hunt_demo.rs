// C08 - Filter strings compile to the RFC 4511 filter they denote.
//
// RFC 4515 section 3 defines the filter string grammar "following the ABNF notation
// defined in [RFC4234]", and has
//
//     extensible = ( attr [dnattrs] [matchingrule] COLON EQUALS assertionvalue )
//                  / ( [dnattrs] matchingrule COLON EQUALS assertionvalue )
//     dnattrs    = COLON "dn"
//
// In ABNF a quoted string literal is case-insensitive (RFC 4234/5234 section 2.3: "ABNF
// strings are case-insensitive"), so ":DN", ":Dn" and ":dN" are the dnattrs keyword just
// as ":dn" is (this is also what OpenLDAP's libldap does: strcasecmp(dn, "dn")).
//
// The library matches the keyword with a case-sensitive tag(b":dn") (src/filter.rs,
// attr_dn_mrule / dn_mrule). Consequences:
//
//  1. "(ou:DN:2.5.13.5:=People)", "(:DN:2.5.13.5:=People)", "(ou:Dn:caseIgnoreMatch:=People)"
//     are in the RFC 4515 grammar - there is no other way to read them - and are REJECTED
//     (parse_filter gives Err, Ldap::search() fails with LdapError::FilterParsing).
//
//  2. "(ou:DN:=People)" is accepted but compiled to an extensible match with
//     matchingRule = "DN" and no dnAttributes, instead of dnAttributes = TRUE and no
//     matching rule, which is what the same string with a lower-case keyword yields. The
//     server is asked a different question than the one the filter string denotes.

use std::time::Duration;

use bytes::BytesMut;
use lber::structures::ASNTag;
use lber::write;

use tokio::io::{AsyncReadExt, AsyncWriteExt};
use tokio::net::TcpListener;

use ldap3::{LdapConnAsync, LdapError, Scope};

fn compile(filter: &str) -> Option<Vec<u8>> {
    match ldap3::parse_filter(filter) {
        Ok(tag) => {
            let mut buf = BytesMut::new();
            write::encode_into(&mut buf, tag.into_structure()).expect("encode");
            Some(buf.to_vec())
        }
        Err(()) => None,
    }
}

/// Strings which can only be derived with ":DN" / ":Dn" / ":dN" as dnattrs must be accepted
/// and must compile to exactly what the lower-case spelling compiles to.
#[test]
fn dnattrs_keyword_is_case_insensitive_when_a_matching_rule_follows() {
    let templates = [
        "(ou:@:2.5.13.5:=People)",
        "(ou:@:caseIgnoreMatch:=People)",
        "(ou;lang-en:@:caseIgnoreMatch:=People)",
        "(:@:2.5.13.5:=People)",
        "(:@:caseIgnoreMatch:=People)",
        "(&(objectClass=person)(ou:@:caseIgnoreMatch:=People))",
        "ou:@:2.5.13.5:=People",
    ];
    let mut failures = vec![];
    for t in templates {
        let lower = t.replace('@', "dn");
        let want = compile(&lower).unwrap_or_else(|| panic!("{} must compile", lower));
        for kw in ["DN", "Dn", "dN"] {
            let f = t.replace('@', kw);
            match compile(&f) {
                Some(got) if got == want => (),
                Some(got) => failures.push(format!(
                    "{}: compiled to {:02x?}, but it denotes the same filter as {} = {:02x?}",
                    f, got, lower, want
                )),
                None => failures.push(format!(
                    "{}: REJECTED, but it is in the RFC 4515 grammar (dnattrs = COLON \"dn\", an ABNF \
                     literal, hence case-insensitive) and denotes the same filter as {} = {:02x?}",
                    f, lower, want
                )),
            }
        }
    }
    assert!(
        failures.is_empty(),
        "C08 demands that every filter string in the RFC 4515 grammar is accepted and encodes to the \
         BER filter of its syntax tree; instead:\n{}",
        failures.join("\n")
    );
}

/// "(ou:DN:=People)": accepted, but the dnattrs keyword is taken for a matching rule name.
#[test]
fn uppercase_dnattrs_keyword_is_not_a_matching_rule() {
    // extensibleMatch [9] { type [2] "ou", matchValue [3] "People", dnAttributes [4] TRUE }
    let want: &[u8] = b"\xa9\x0f\x82\x02ou\x83\x06People\x84\x01\xff";
    assert_eq!(
        compile("(ou:dn:=People)").as_deref(),
        Some(want),
        "baseline: the lower-case spelling sets dnAttributes"
    );
    for f in ["(ou:DN:=People)", "(ou:Dn:=People)", "(ou:dN:=People)"] {
        let got = compile(f);
        assert_eq!(
            got.as_deref(),
            Some(want),
            "C08 demands that an accepted filter string means what it says: in {} the component after \
             the attribute is the dnattrs keyword (case-insensitive ABNF literal \"dn\"), so the filter \
             is extensibleMatch{{type=ou, matchValue=People, dnAttributes=TRUE}} = {:02x?}; the library \
             produced {:02x?} instead (matchingRule [1] = the keyword, no dnAttributes [4])",
            f,
            want,
            got
        );
    }
}

fn find(hay: &[u8], needle: &[u8]) -> bool {
    hay.windows(needle.len()).any(|w| w == needle)
}

/// The same through the public client API, observing the SearchRequest a server receives.
#[tokio::test(flavor = "multi_thread", worker_threads = 2)]
async fn search_with_uppercase_dnattrs_keyword_over_the_wire() {
    let listener = TcpListener::bind("127.0.0.1:0").await.unwrap();
    let port = listener.local_addr().unwrap().port();

    // Scripted server: answers every SearchRequest (message ids 1, 2, ...) with
    // SearchResultDone(success) and hands the raw request to the test.
    let (req_tx, mut req_rx) = tokio::sync::mpsc::unbounded_channel::<Vec<u8>>();
    tokio::spawn(async move {
        let (mut sock, _) = listener.accept().await.unwrap();
        loop {
            let mut hdr = [0u8; 2];
            if sock.read_exact(&mut hdr).await.is_err() {
                return;
            }
            assert_eq!(hdr[0], 0x30);
            assert!(hdr[1] < 0x80, "demo requests are short");
            let mut body = vec![0u8; hdr[1] as usize];
            if sock.read_exact(&mut body).await.is_err() {
                return;
            }
            // body = 02 01 <id> <protocolOp> ...
            let id = body[2];
            if body[3] != 0x63 {
                return; // Unbind or anything else: stop
            }
            let _ = req_tx.send(body);
            let done = [0x30, 0x0c, 0x02, 0x01, id, 0x65, 0x07, 0x0a, 0x01, 0x00, 0x04, 0x00, 0x04, 0x00];
            if sock.write_all(&done).await.is_err() {
                return;
            }
        }
    });

    let fut = async {
        let (conn, mut ldap) = LdapConnAsync::new(&format!("ldap://127.0.0.1:{}", port)).await.unwrap();
        ldap3::drive!(conn);

        // Baseline: lower-case keyword.
        ldap.search("dc=example", Scope::Subtree, "(ou:dn:=People)", vec!["cn"])
            .await
            .expect("search with (ou:dn:=People)");
        let req = req_rx.recv().await.expect("request 1");
        let want: &[u8] = b"\xa9\x0f\x82\x02ou\x83\x06People\x84\x01\xff";
        assert!(find(&req, want), "baseline: (ou:dn:=People) goes out with dnAttributes TRUE");

        // Unambiguous string of the grammar: must be sent, is refused locally instead.
        let res = ldap
            .search("dc=example", Scope::Subtree, "(ou:DN:caseIgnoreMatch:=People)", vec!["cn"])
            .await;
        let rejected = matches!(res, Err(LdapError::FilterParsing));
        if !rejected {
            res.expect("search with (ou:DN:caseIgnoreMatch:=People)");
            let _ = req_rx.recv().await;
        }

        // Ambiguity-free by the same rule that makes ":dn" the flag: must go out as the baseline did.
        ldap.search("dc=example", Scope::Subtree, "(ou:DN:=People)", vec!["cn"])
            .await
            .expect("search with (ou:DN:=People)");
        let req = req_rx.recv().await.expect("request for (ou:DN:=People)");
        let sent_flag = find(&req, want);
        let sent_rule = find(&req, b"\xa9\x10\x81\x02DN\x82\x02ou\x83\x06People");

        assert!(
            !rejected && sent_flag,
            "C08 demands that filter strings of the RFC 4515 grammar are accepted and compile to the filter \
             they denote. Ldap::search(\"(ou:DN:caseIgnoreMatch:=People)\") was {}; \
             Ldap::search(\"(ou:DN:=People)\") put {} on the wire (SearchRequest body: {:02x?})",
            if rejected { "refused with LdapError::FilterParsing" } else { "accepted" },
            if sent_flag {
                "dnAttributes TRUE"
            } else if sent_rule {
                "matchingRule \"DN\" and NO dnAttributes"
            } else {
                "something else"
            },
            req
        );
    };
    tokio::time::timeout(Duration::from_secs(20), fut)
        .await
        .expect("hang guard");
}
