// C08, secondary finding: "... are rejected with an error, never a panic" / "every filter string in the
// RFC 4515 grammar is accepted".
//
// The filter parser (src/filter.rs: filter -> filtercomp -> and/or/not -> filter ...) recurses once per
// nesting level without any bound, and so do into_structure(), the encoder and Drop for the resulting Tag.
// A grammatical filter string nested a few thousand levels deep - "(!(!(! ... (a=b) ... )))", 3 bytes per
// level - overflows the stack of an ordinary 2 MiB thread (the default for std::thread::spawn and for Tokio
// workers): about 1000 levels (3 kB of filter text) in a debug build, between 10000 and 30000 levels in a
// release build. A stack overflow is not an error value and not even a panic: the whole process is aborted
// (SIGABRT). Compare the fix for the BER parser ("limit the nesting depth accepted by the BER parser so that
// hostile input cannot overflow the stack").
//
// The crash is provoked in a child process (this test binary re-executed), so that the parent can report it.

use std::process::Command;

const DEPTH: usize = 50_000;
const TEST_NAME: &str = "deeply_nested_filter_gives_a_result_not_a_crash";

#[test]
fn deeply_nested_filter_gives_a_result_not_a_crash() {
    if std::env::var_os("HUNT_DEEP_CHILD").is_some() {
        let mut s = String::with_capacity(3 * DEPTH + 8);
        for _ in 0..DEPTH {
            s.push_str("(!");
        }
        s.push_str("(a=b)");
        for _ in 0..DEPTH {
            s.push(')');
        }
        let t = std::thread::Builder::new()
            .stack_size(2 * 1024 * 1024)
            .spawn(move || {
                let r = ldap3::parse_filter(&s);
                let ok = r.is_ok();
                std::mem::forget(r); // leave the recursive Drop out of it
                ok
            })
            .unwrap();
        let ok = t.join().expect("no panic either");
        println!("child: parse_filter returned {}", if ok { "Ok" } else { "Err" });
        return;
    }
    let out = Command::new(std::env::current_exe().unwrap())
        .args(["--exact", TEST_NAME, "--nocapture", "--test-threads=1"])
        .env("HUNT_DEEP_CHILD", "1")
        .output()
        .expect("re-exec of the test binary");
    assert!(
        out.status.success(),
        "C08 demands that a filter string is either accepted or rejected with an error, never a panic; \
         parse_filter() on a grammatical filter nested {} levels deep (\"(!(!...(a=b)...))\", {} bytes) on a \
         2 MiB thread killed the process instead: {:?}\nchild stderr: {}",
        DEPTH,
        3 * DEPTH + 5,
        out.status,
        String::from_utf8_lossy(&out.stderr)
    );
}
