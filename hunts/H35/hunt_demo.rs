// Hunt H35 / property C11: hostile or corrupt server bytes cannot crash or wedge the connection.
//
// Harness: a scripted in-process TCP server waits for two requests (a simple Bind, id 1, and a
// Search, id 2), then writes a hostile byte string, optionally followed by well-formed results
// for both operations, and keeps the connection open. The client side records what the pending
// operations and the connection driver do.

use std::sync::Arc;
use std::time::Duration;

use ldap3::{LdapConnAsync, LdapError, Scope};
use tokio::io::{AsyncReadExt, AsyncWriteExt};
use tokio::net::TcpListener;
use tokio::sync::{oneshot, Semaphore};
use tokio::time::timeout;

fn tlv(tag: u8, content: &[u8]) -> Vec<u8> {
    let mut v = vec![tag];
    let l = content.len();
    if l < 128 {
        v.push(l as u8);
    } else if l < 256 {
        v.extend([0x81, l as u8]);
    } else if l < 65536 {
        v.extend([0x82, (l >> 8) as u8, l as u8]);
    } else {
        v.extend([0x83, (l >> 16) as u8, (l >> 8) as u8, l as u8]);
    }
    v.extend(content);
    v
}

fn cat(parts: &[Vec<u8>]) -> Vec<u8> {
    parts.iter().flatten().copied().collect()
}

fn ldap_result(rc: u8) -> Vec<u8> {
    cat(&[tlv(0x0a, &[rc]), tlv(0x04, b""), tlv(0x04, b"")])
}

fn msg(id: u8, op: Vec<u8>, ctrls: Option<Vec<u8>>) -> Vec<u8> {
    let mut parts = vec![tlv(0x02, &[id]), op];
    if let Some(c) = ctrls {
        parts.push(c);
    }
    tlv(0x30, &cat(&parts))
}

fn bind_resp(id: u8) -> Vec<u8> {
    msg(id, tlv(0x61, &ldap_result(0)), None)
}

fn search_done(id: u8) -> Vec<u8> {
    msg(id, tlv(0x65, &ldap_result(0)), None)
}

fn search_done_ctrls(id: u8) -> Vec<u8> {
    let prval = tlv(0x30, &cat(&[tlv(0x02, &[0]), tlv(0x04, b"ck")]));
    let ctrl = tlv(
        0x30,
        &cat(&[
            tlv(0x04, b"1.2.840.113556.1.4.319"),
            tlv(0x01, &[0xff]),
            tlv(0x04, &prval),
        ]),
    );
    msg(id, tlv(0x65, &ldap_result(0)), Some(tlv(0xa0, &ctrl)))
}

fn search_entry(id: u8) -> Vec<u8> {
    let attr = tlv(
        0x30,
        &cat(&[tlv(0x04, b"cn"), tlv(0x31, &cat(&[tlv(0x04, b"x"), tlv(0x04, b"y")]))]),
    );
    msg(
        id,
        tlv(0x64, &cat(&[tlv(0x04, b"cn=a"), tlv(0x30, &attr)])),
        None,
    )
}

fn search_ref(id: u8) -> Vec<u8> {
    msg(id, tlv(0x73, &tlv(0x04, b"ldap://h/")), None)
}

fn ext_resp_ad(id: u8) -> Vec<u8> {
    // ExtendedResponse with name and value, plus the AD-style misplaced [10] after it
    let op = tlv(
        0x78,
        &cat(&[ldap_result(0), tlv(0x8a, b"1.3.6.1"), tlv(0x8b, b"v")]),
    );
    tlv(
        0x30,
        &cat(&[tlv(0x02, &[id]), op, tlv(0x8a, b"1.3.6.1.4.1.1466.20036")]),
    )
}

fn intermediate(id: u8) -> Vec<u8> {
    msg(id, tlv(0x79, &cat(&[tlv(0x80, b"1.2"), tlv(0x81, b"v")])), None)
}

/// Independent walk over the outer frames of a byte string.
#[derive(Debug, PartialEq, Clone, Copy)]
enum Tiling {
    /// the frames end exactly at the end of the bytes
    Exact,
    /// a header which can never become valid is met at a frame boundary
    BadHeader,
    /// the last frame announces more than what is there
    Short,
}

fn tiling(b: &[u8]) -> Tiling {
    let mut i = 0;
    while i < b.len() {
        if i + 1 >= b.len() {
            return Tiling::Short;
        }
        let l0 = b[i + 1];
        let (hdr, len) = if l0 < 128 {
            (2usize, l0 as u128)
        } else {
            let n = (l0 - 128) as usize;
            if n == 0 {
                return Tiling::BadHeader;
            }
            if i + 2 + n > b.len() {
                return Tiling::Short;
            }
            let lb = &b[i + 2..i + 2 + n];
            if n > 8 && lb[..n - 8].iter().any(|&o| o != 0) {
                return Tiling::BadHeader;
            }
            let mut len: u128 = 0;
            for &o in &lb[lb.len().saturating_sub(8)..] {
                len = (len << 8) | o as u128;
            }
            (2 + n, len)
        };
        if (i + hdr) as u128 + len > b.len() as u128 {
            return Tiling::Short;
        }
        i += hdr + len as usize;
    }
    Tiling::Exact
}

#[derive(Debug)]
struct Outcome {
    /// while the server kept the connection open
    bind_open: Option<Result<u32, String>>,
    search_open: Option<Result<usize, String>>,
    driver_open: Option<Result<(), String>>,
    /// after the server closed it
    bind_end: Option<Result<u32, String>>,
    search_end: Option<Result<usize, String>>,
    driver_end: Option<Result<(), String>>,
    driver_panicked: bool,
}

fn count_frames(b: &[u8]) -> usize {
    // the client's requests are well-formed; count complete outer frames
    let mut i = 0;
    let mut n = 0;
    while i + 2 <= b.len() {
        let l0 = b[i + 1];
        let (hdr, len) = if l0 < 128 {
            (2, l0 as usize)
        } else {
            let k = (l0 - 128) as usize;
            if i + 2 + k > b.len() {
                break;
            }
            let mut len = 0usize;
            for &o in &b[i + 2..i + 2 + k] {
                len = (len << 8) | o as usize;
            }
            (2 + k, len)
        };
        if i + hdr + len > b.len() {
            break;
        }
        i += hdr + len;
        n += 1;
    }
    n
}

async fn run_case(hostile: Vec<u8>, open_wait: Duration) -> Outcome {
    let listener = TcpListener::bind("127.0.0.1:0").await.unwrap();
    let port = listener.local_addr().unwrap().port();
    let (close_tx, close_rx) = oneshot::channel::<()>();
    let server = tokio::spawn(async move {
        let (mut s, _) = listener.accept().await.unwrap();
        let mut buf = vec![];
        let mut tmp = [0u8; 4096];
        while count_frames(&buf) < 2 {
            match s.read(&mut tmp).await {
                Ok(0) | Err(_) => return,
                Ok(n) => buf.extend(&tmp[..n]),
            }
        }
        let _ = s.write_all(&hostile).await;
        let _ = s.flush().await;
        let _ = close_rx.await;
        drop(s);
    });
    let (conn, ldap) = LdapConnAsync::new(&format!("ldap://127.0.0.1:{}", port))
        .await
        .unwrap();
    let mut driver = tokio::spawn(async move { conn.drive().await.map_err(|e| e.to_string()) });
    let mut l1 = ldap.clone();
    let mut l2 = ldap.clone();
    // bind first, so that it gets id 1
    let mut bind = tokio::spawn(async move {
        l1.simple_bind("cn=x", "p")
            .await
            .map(|r| r.rc)
            .map_err(|e| e.to_string())
    });
    tokio::task::yield_now().await;
    let mut search = tokio::spawn(async move {
        // give the bind a head start
        tokio::time::sleep(Duration::from_millis(5)).await;
        let mut st = l2
            .streaming_search("dc=x", Scope::Subtree, "(objectClass=*)", vec!["cn"])
            .await
            .map_err(|e| e.to_string())?;
        let mut n = 0usize;
        loop {
            match st.next().await {
                Ok(Some(_)) => n += 1,
                Ok(None) => break,
                Err(e) => return Err(e.to_string()),
            }
        }
        let _ = st.finish().await;
        Ok::<usize, String>(n)
    });
    let mut out = Outcome {
        bind_open: None,
        search_open: None,
        driver_open: None,
        bind_end: None,
        search_end: None,
        driver_end: None,
        driver_panicked: false,
    };
    let deadline = tokio::time::Instant::now() + open_wait;
    let mut bind_done = false;
    let mut search_done = false;
    let mut driver_done = false;
    loop {
        if bind_done && search_done {
            break;
        }
        tokio::select! {
            _ = tokio::time::sleep_until(deadline) => break,
            r = &mut bind, if !bind_done => { bind_done = true; out.bind_open = Some(r.unwrap_or_else(|e| Err(format!("PANIC {}", e)))); }
            r = &mut search, if !search_done => { search_done = true; out.search_open = Some(r.unwrap_or_else(|e| Err(format!("PANIC {}", e)))); }
            r = &mut driver, if !driver_done => {
                driver_done = true;
                match r {
                    Ok(r) => out.driver_open = Some(r),
                    Err(e) => { out.driver_panicked = e.is_panic(); out.driver_open = Some(Err(format!("PANIC {}", e))); }
                }
            }
        }
    }
    drop(ldap);
    let _ = close_tx.send(());
    let guard = Duration::from_secs(10);
    if !bind_done {
        if let Ok(r) = timeout(guard, &mut bind).await {
            out.bind_end = Some(r.unwrap_or_else(|e| Err(format!("PANIC {}", e))));
        }
    } else {
        out.bind_end = out.bind_open.clone();
    }
    if !search_done {
        if let Ok(r) = timeout(guard, &mut search).await {
            out.search_end = Some(r.unwrap_or_else(|e| Err(format!("PANIC {}", e))));
        }
    } else {
        out.search_end = out.search_open.clone();
    }
    if !driver_done {
        if let Ok(r) = timeout(guard, &mut driver).await {
            match r {
                Ok(r) => out.driver_end = Some(r),
                Err(e) => {
                    out.driver_panicked = e.is_panic();
                    out.driver_end = Some(Err(format!("PANIC {}", e)));
                }
            }
        }
    } else {
        out.driver_end = out.driver_open.clone();
    }
    let _ = server.await;
    out
}

fn check(hostile: &[u8], with_followup: bool, o: &Outcome) -> Vec<String> {
    let mut v = vec![];
    if o.driver_panicked {
        v.push("the connection driver panicked".to_string());
    }
    if o.bind_end.is_none() || o.search_end.is_none() || o.driver_end.is_none() {
        v.push("something is still pending 10 s after the server has closed".to_string());
    }
    for r in [&o.bind_end] {
        if let Some(Err(e)) = r {
            if e.starts_with("PANIC") {
                v.push(format!("bind task panicked: {}", e));
            }
        }
    }
    if let Some(Err(e)) = &o.search_end {
        if e.starts_with("PANIC") {
            v.push(format!("search task panicked: {}", e));
        }
    }
    let mut all = hostile.to_vec();
    let _ = with_followup;
    match tiling(&all) {
        Tiling::Exact if with_followup => {
            // Every announced byte has arrived, and well-formed results for both operations
            // follow: each frame is delivered or rejected, so both operations end, one way or
            // the other, while the connection is still open.
            if o.bind_open.is_none() {
                v.push("all announced bytes have arrived, yet the bind is still waiting".into());
            }
            if o.search_open.is_none() {
                v.push("all announced bytes have arrived, yet the search is still waiting".into());
            }
        }
        Tiling::BadHeader => {
            if o.bind_open.is_none() || o.search_open.is_none() {
                v.push("a header which can never be valid doesn't end the connection".into());
            }
        }
        _ => (),
    }
    all.clear();
    v
}

fn followup() -> Vec<u8> {
    cat(&[bind_resp(1), search_done(2)])
}

fn mutations(base: &[u8]) -> Vec<Vec<u8>> {
    let mut out = vec![];
    let vals = [
        0x00u8, 0x01, 0x02, 0x04, 0x05, 0x0a, 0x10, 0x1f, 0x30, 0x31, 0x3f, 0x64, 0x65, 0x73, 0x79,
        0x7f, 0x80, 0x81, 0x82, 0x84, 0x88, 0x89, 0x8a, 0xa0, 0xa3, 0xff,
    ];
    for i in 0..base.len() {
        for &v in &vals {
            if base[i] != v {
                let mut m = base.to_vec();
                m[i] = v;
                out.push(m);
            }
        }
        for d in [1u8, 0xff] {
            let mut m = base.to_vec();
            m[i] = m[i].wrapping_add(d);
            out.push(m);
        }
        // deletion and insertion without fixing lengths up
        let mut m = base.to_vec();
        m.remove(i);
        out.push(m);
        let mut m = base.to_vec();
        m.insert(i, 0x00);
        out.push(m);
        // deletion with the outer length fixed up (short form only)
        if i >= 2 && base[1] < 128 && base[1] > 0 {
            let mut m = base.to_vec();
            m.remove(i);
            m[1] -= 1;
            out.push(m);
        }
    }
    out
}

async fn run_many(cases: Vec<(Vec<u8>, bool)>, open_wait: Duration) -> Vec<String> {
    let sem = Arc::new(Semaphore::new(48));
    let mut handles = vec![];
    for (hostile, fu) in cases {
        let sem = sem.clone();
        handles.push(tokio::spawn(async move {
            let _p = sem.acquire().await.unwrap();
            let mut bytes = hostile.clone();
            if fu {
                bytes.extend(followup());
            }
            let o = run_case(bytes.clone(), open_wait).await;
            let v = check(&bytes, fu, &o);
            if v.is_empty() {
                None
            } else {
                Some(format!("{:02x?} -> {:?}\n   {:?}", hostile, v, o))
            }
        }));
    }
    let mut bad = vec![];
    for h in handles {
        if let Some(s) = h.await.unwrap() {
            bad.push(s);
        }
    }
    bad
}

#[tokio::test(flavor = "multi_thread", worker_threads = 4)]
async fn h1_single_field_mutations() {
    let bases = vec![
        bind_resp(1),
        search_entry(2),
        search_done_ctrls(2),
        search_ref(2),
        ext_resp_ad(1),
        intermediate(1),
        intermediate(2),
        // operations which don't belong to the id
        search_entry(1),
        bind_resp(2),
    ];
    let mut cases = vec![];
    for b in &bases {
        for m in mutations(b) {
            cases.push((m, true));
        }
    }
    eprintln!("{} cases", cases.len());
    let bad = run_many(cases, Duration::from_millis(1500)).await;
    for b in &bad {
        eprintln!("{}", b);
    }
    assert!(bad.is_empty(), "{} cases violate C11", bad.len());
}

#[tokio::test(flavor = "multi_thread", worker_threads = 4)]
async fn h2_random_bytes() {
    let mut seed = 0x9e3779b97f4a7c15u64;
    let mut rnd = move || {
        seed ^= seed << 13;
        seed ^= seed >> 7;
        seed ^= seed << 17;
        seed
    };
    let mut cases = vec![];
    for _ in 0..1500 {
        let len = (rnd() % 40) as usize + 1;
        let mut v: Vec<u8> = (0..len).map(|_| rnd() as u8).collect();
        // bias towards something frame-like
        if rnd() % 2 == 0 {
            v[0] = 0x30;
            if v.len() > 1 {
                v[1] = (v.len() - 2) as u8;
            }
        }
        cases.push((v, true));
    }
    let bad = run_many(cases, Duration::from_millis(1500)).await;
    for b in &bad {
        eprintln!("{}", b);
    }
    assert!(bad.is_empty(), "{} cases violate C11", bad.len());
}

fn nested(depth: usize, tag: u8, inner: Vec<u8>) -> Vec<u8> {
    let mut v = inner;
    for _ in 0..depth {
        v = tlv(tag, &v);
    }
    v
}

#[tokio::test(flavor = "multi_thread", worker_threads = 4)]
async fn h3_nesting() {
    let mut cases = vec![];
    for depth in [1usize, 50, 97, 98, 99, 100, 101, 102, 103, 1000, 20000, 150000] {
        for tag in [0x30u8, 0xa0, 0x24, 0x3f] {
            // nested inside the protocol op of a result for the search
            let op = tlv(0x64, &nested(depth, tag, vec![]));
            cases.push((tlv(0x30, &cat(&[tlv(0x02, &[2]), op])), true));
            // nested inside a control
            let c = tlv(0xa0, &nested(depth, tag, vec![]));
            cases.push((
                tlv(
                    0x30,
                    &cat(&[tlv(0x02, &[1]), tlv(0x61, &ldap_result(0)), c]),
                ),
                true,
            ));
            // the whole message is the nest
            cases.push((nested(depth, tag, vec![]), true));
        }
    }
    // a megabyte of two-byte nests: 30 80-less short forms can't nest that deep, use 30 84 ...
    let bad = run_many(cases, Duration::from_millis(4000)).await;
    for b in &bad {
        eprintln!("{}", &b[b.len().saturating_sub(600)..]);
    }
    assert!(bad.is_empty(), "{} cases violate C11", bad.len());
}

#[allow(dead_code)]
fn _unused(_: LdapError) {}

// ---- H4: the StartTLS exchange during connection establishment -------------------------------

fn ext_resp_fail(id: u8) -> Vec<u8> {
    msg(id, tlv(0x78, &ldap_result(2)), None)
}

fn ext_resp_ok(id: u8) -> Vec<u8> {
    msg(id, tlv(0x78, &ldap_result(0)), None)
}

async fn starttls_case(hostile: Vec<u8>, open_wait: Duration) -> (Option<Result<(), String>>, bool) {
    let listener = TcpListener::bind("127.0.0.1:0").await.unwrap();
    let port = listener.local_addr().unwrap().port();
    let (close_tx, close_rx) = oneshot::channel::<()>();
    let server = tokio::spawn(async move {
        let (mut s, _) = listener.accept().await.unwrap();
        let mut buf = vec![];
        let mut tmp = [0u8; 4096];
        while count_frames(&buf) < 1 {
            match s.read(&mut tmp).await {
                Ok(0) | Err(_) => return,
                Ok(n) => buf.extend(&tmp[..n]),
            }
        }
        let _ = s.write_all(&hostile).await;
        let _ = close_rx.await;
        drop(s);
    });
    let mut fut = tokio::spawn(async move {
        let settings = ldap3::LdapConnSettings::new().set_starttls(true);
        LdapConnAsync::with_settings(settings, &format!("ldap://127.0.0.1:{}", port))
            .await
            .map(|_| ())
            .map_err(|e| e.to_string())
    });
    let open = match timeout(open_wait, &mut fut).await {
        Ok(r) => Some(r.unwrap_or_else(|e| Err(format!("PANIC {}", e)))),
        Err(_) => None,
    };
    let _ = close_tx.send(());
    let ended = if open.is_none() {
        timeout(Duration::from_secs(10), &mut fut).await.is_ok()
    } else {
        true
    };
    let _ = server.await;
    (open, ended)
}

#[tokio::test(flavor = "multi_thread", worker_threads = 4)]
async fn h4_starttls_mutations() {
    let mut cases = vec![];
    for b in [ext_resp_ok(1), ext_resp_fail(1), ext_resp_ad(1), intermediate(1), bind_resp(0)] {
        for m in mutations(&b) {
            cases.push(m);
        }
    }
    let sem = Arc::new(Semaphore::new(8));
    let mut handles = vec![];
    for hostile in cases {
        let sem = sem.clone();
        handles.push(tokio::spawn(async move {
            let _p = sem.acquire().await.unwrap();
            let mut bytes = hostile.clone();
            // a refusal follows, so that the exchange ends without a TLS handshake
            bytes.extend(ext_resp_fail(1));
            let (open, ended) = starttls_case(bytes.clone(), Duration::from_millis(3000)).await;
            let mut v = vec![];
            if !ended {
                v.push("connection establishment still pending 10 s after the server closed");
            }
            if let Some(Err(e)) = &open {
                if e.starts_with("PANIC") {
                    v.push("panic");
                }
            }
            // If the hostile frame was itself a success response, the client goes on to the TLS
            // handshake, which the scripted server never answers: that wait is legitimate.
            let maybe_tls = matches!(open, None) && reads_as_success(&bytes);
            match tiling(&bytes) {
                Tiling::Exact | Tiling::BadHeader if open.is_none() && !maybe_tls => {
                    v.push("all announced bytes have arrived, yet new() is still waiting");
                }
                _ => (),
            }
            if v.is_empty() {
                None
            } else {
                Some(format!("{:02x?} -> {:?} open={:?}", hostile, v, open))
            }
        }));
    }
    let mut bad = vec![];
    for h in handles {
        if let Some(s) = h.await.unwrap() {
            bad.push(s);
        }
    }
    for b in &bad {
        eprintln!("{}", b);
    }
    assert!(bad.is_empty(), "{} cases violate C11", bad.len());
}

#[tokio::test(flavor = "multi_thread", worker_threads = 4)]
async fn h4b_single() {
    for _ in 0..20 {
        let mut bytes = intermediate(1);
        bytes[0] = 0x8a;
        bytes.extend(ext_resp_fail(1));
        let r = starttls_case(bytes, Duration::from_millis(3000)).await;
        eprintln!("{:?}", r);
    }
}

// ---- H5: stack needed by the parser at the deepest accepted nesting ---------------------------

#[test]
fn h5_stack_at_max_depth() {
    for kb in [1024usize, 512, 256] {
        let frame = tlv(0x30, &cat(&[tlv(0x02, &[1]), tlv(0x61, &nested(99, 0x30, vec![]))]));
        let h = std::thread::Builder::new()
            .stack_size(kb * 1024)
            .spawn(move || {
                let mut p = lber::Parser::new();
                let r = p.parse(&frame);
                r.is_ok()
            })
            .unwrap();
        let ok = h.join().expect("parser thread died");
        eprintln!("stack {} KiB: parsed ok = {}", kb, ok);
        assert!(ok);
    }
}

// ---- H6: garbage arriving while nothing is pending ---------------------------------------------

#[tokio::test(flavor = "multi_thread", worker_threads = 2)]
async fn h6_garbage_while_idle() {
    let listener = TcpListener::bind("127.0.0.1:0").await.unwrap();
    let port = listener.local_addr().unwrap().port();
    let (close_tx, close_rx) = oneshot::channel::<()>();
    let server = tokio::spawn(async move {
        let (mut s, _) = listener.accept().await.unwrap();
        // not an LDAPMessage: complete by its outer length
        let _ = s.write_all(&[0x04, 0x02, 0x41, 0x42]).await;
        let _ = close_rx.await;
        drop(s);
    });
    let (conn, mut ldap) = LdapConnAsync::new(&format!("ldap://127.0.0.1:{}", port))
        .await
        .unwrap();
    let driver = tokio::spawn(async move { conn.drive().await });
    let r = timeout(Duration::from_secs(5), driver)
        .await
        .expect("C11: a complete frame which is not an LDAPMessage must end the connection; the driver is still running");
    assert!(r.expect("driver panicked").is_err(), "driver must end with a decoding error");
    assert!(ldap.is_closed(), "the handle must report the connection as closed");
    let r = timeout(Duration::from_secs(5), ldap.simple_bind("", ""))
        .await
        .expect("C11: an operation issued after the decoding error must fail, not wait");
    assert!(r.is_err());
    let r = timeout(
        Duration::from_secs(5),
        ldap.streaming_search("", Scope::Base, "(objectClass=*)", vec!["*"]),
    )
    .await
    .expect("C11: a search issued after the decoding error must fail, not wait");
    assert!(r.is_err());
    let _ = close_tx.send(());
    let _ = server.await;
}

// ---- H7: a Paged Results response control without a value, through the PagedResults adapter ----
// The panic (if any) is in the caller's task, inside SearchStream::next(); C11 is about the
// connection driver, which must survive and keep serving other operations.

#[tokio::test(flavor = "multi_thread", worker_threads = 2)]
async fn h7_paged_control_without_value() {
    let listener = TcpListener::bind("127.0.0.1:0").await.unwrap();
    let port = listener.local_addr().unwrap().port();
    let server = tokio::spawn(async move {
        let (mut s, _) = listener.accept().await.unwrap();
        let mut buf = vec![];
        let mut tmp = [0u8; 4096];
        while count_frames(&buf) < 1 {
            match s.read(&mut tmp).await {
                Ok(0) | Err(_) => return,
                Ok(n) => buf.extend(&tmp[..n]),
            }
        }
        // SearchResultDone for id 1 with a Paged Results control which has no controlValue
        let ctrl = tlv(0x30, &tlv(0x04, b"1.2.840.113556.1.4.319"));
        let done = msg(1, tlv(0x65, &ldap_result(0)), Some(tlv(0xa0, &ctrl)));
        let _ = s.write_all(&done).await;
        // then serve a bind (id 2)
        while count_frames(&buf) < 2 {
            match s.read(&mut tmp).await {
                Ok(0) | Err(_) => return,
                Ok(n) => buf.extend(&tmp[..n]),
            }
        }
        let _ = s.write_all(&bind_resp(2)).await;
        let _ = s.read(&mut tmp).await;
    });
    let (conn, mut ldap) = LdapConnAsync::new(&format!("ldap://127.0.0.1:{}", port))
        .await
        .unwrap();
    let driver = tokio::spawn(async move { conn.drive().await });
    let mut l2 = ldap.clone();
    let searcher = tokio::spawn(async move {
        let mut st = l2
            .streaming_search_with(
                ldap3::adapters::PagedResults::new(10),
                "dc=x",
                Scope::Subtree,
                "(objectClass=*)",
                vec!["cn"],
            )
            .await
            .map_err(|e| e.to_string())?;
        while let Some(_e) = st.next().await.map_err(|e| e.to_string())? {}
        Ok::<u32, String>(st.finish().await.rc)
    });
    let sr = timeout(Duration::from_secs(5), searcher).await.expect("search hangs");
    eprintln!("paged search with a value-less control: {:?}", sr.as_ref().map_err(|e| e.is_panic()));
    // whatever happened to the caller, the connection must still work
    let r = timeout(Duration::from_secs(5), ldap.simple_bind("", ""))
        .await
        .expect("C11: the connection is wedged after the odd control");
    assert_eq!(r.expect("bind failed: the connection was brought down").rc, 0);
    assert!(!driver.is_finished(), "driver ended");
    drop(ldap);
    let _ = server.await;
}

/// Does the first frame read as a result with code 0 (whatever its operation tag)? The library
/// accepts any LDAPResult-shaped operation as the StartTLS response, and reads an ENUMERATED
/// without content octets as 0, so these go on to the TLS handshake.
fn reads_as_success(b: &[u8]) -> bool {
    use ldap3::asn1::{parse_tag, PL};
    let tag = match parse_tag(b) {
        Ok((_, t)) => t,
        Err(_) => return false,
    };
    let elems = match tag.payload {
        PL::C(e) => e,
        _ => return false,
    };
    for e in elems.iter().skip(1) {
        if let PL::C(inner) = &e.payload {
            if let Some(first) = inner.first() {
                if first.id == 10 {
                    if let PL::P(v) = &first.payload {
                        if v.iter().all(|&o| o == 0) {
                            return true;
                        }
                    }
                }
            }
        }
    }
    false
}
