// Hunt H33, property C07 (BER encoding and parsing are mutual inverses; encoding is canonical).
//
// Nothing was found; these are the hypotheses that were tried. They all pass on the
// unchanged source.

use bytes::BytesMut;
use lber::common::TagClass;
use lber::parse::{parse_tag, parse_uint};
use lber::structure::{StructureTag, PL};
use lber::structures::{
    ASNTag, Boolean, Enumerated, ExplicitTag, Integer, Null, OctetString, Sequence, Set, Tag,
};
use lber::write::encode_into;

// ---------------------------------------------------------------- independent reference codec

#[derive(Clone, Debug, PartialEq, Eq)]
enum RT {
    P(u8, u8, Vec<u8>),
    C(u8, u8, Vec<RT>),
}

fn class_nr(c: TagClass) -> u8 {
    match c {
        TagClass::Universal => 0,
        TagClass::Application => 1,
        TagClass::Context => 2,
        TagClass::Private => 3,
    }
}

fn nr_class(n: u8) -> TagClass {
    match n {
        0 => TagClass::Universal,
        1 => TagClass::Application,
        2 => TagClass::Context,
        _ => TagClass::Private,
    }
}

fn to_st(t: &RT) -> StructureTag {
    match t {
        RT::P(c, id, v) => StructureTag {
            class: nr_class(*c),
            id: *id as u64,
            payload: PL::P(v.clone()),
        },
        RT::C(c, id, v) => StructureTag {
            class: nr_class(*c),
            id: *id as u64,
            payload: PL::C(v.iter().map(to_st).collect()),
        },
    }
}

fn from_st(t: &StructureTag) -> RT {
    assert!(t.id <= 30);
    match &t.payload {
        PL::P(v) => RT::P(class_nr(t.class), t.id as u8, v.clone()),
        PL::C(v) => RT::C(class_nr(t.class), t.id as u8, v.iter().map(from_st).collect()),
    }
}

/// Reference length octets: minimal, then `pad` leading zero octets (pad > 0 forces the long form).
fn ref_len(out: &mut Vec<u8>, len: usize, pad: usize) {
    if pad == 0 && len < 128 {
        out.push(len as u8);
        return;
    }
    let mut sig: Vec<u8> = Vec::new();
    let mut l = len;
    while l > 0 {
        sig.insert(0, (l & 0xff) as u8);
        l >>= 8;
    }
    if pad == 0 && sig.is_empty() {
        sig.push(0);
    }
    let n = sig.len() + pad;
    assert!(n >= 1 && n <= 126);
    out.push(0x80 | n as u8);
    out.extend(std::iter::repeat(0u8).take(pad));
    out.extend(sig);
}

/// Reference encoder; `pads` is consumed node by node in pre-order (missing -> 0 = minimal).
fn ref_enc(t: &RT, pads: &mut dyn Iterator<Item = usize>) -> Vec<u8> {
    let mut out = Vec::new();
    let pad = pads.next().unwrap_or(0);
    match t {
        RT::P(c, id, v) => {
            out.push(c << 6 | id);
            ref_len(&mut out, v.len(), pad);
            out.extend_from_slice(v);
        }
        RT::C(c, id, subs) => {
            out.push(c << 6 | 0x20 | id);
            let mut body = Vec::new();
            for s in subs {
                body.extend(ref_enc(s, pads));
            }
            ref_len(&mut out, body.len(), pad);
            out.extend(body);
        }
    }
    out
}

/// Reference decoder for definite-length BER with tag numbers 0..30. Returns (tree, consumed).
fn ref_dec(i: &[u8]) -> Option<(RT, usize)> {
    let b0 = *i.first()?;
    let (c, cons, id) = (b0 >> 6, b0 & 0x20 != 0, b0 & 0x1f);
    if id == 31 {
        return None;
    }
    let l0 = *i.get(1)?;
    let (len, hdr) = if l0 < 0x80 {
        (l0 as usize, 2usize)
    } else {
        let n = (l0 & 0x7f) as usize;
        if n == 0 || n == 127 {
            return None;
        }
        let octs = i.get(2..2 + n)?;
        let mut len: u128 = 0;
        for &o in octs {
            if len >> 64 != 0 {
                return None;
            }
            len = len << 8 | o as u128;
        }
        if len > usize::MAX as u128 {
            return None;
        }
        (len as usize, 2 + n)
    };
    let body = i.get(hdr..hdr.checked_add(len)?)?;
    let t = if cons {
        let mut subs = Vec::new();
        let mut rest = body;
        while !rest.is_empty() {
            let (s, used) = ref_dec(rest)?;
            subs.push(s);
            rest = &rest[used..];
        }
        RT::C(c, id, subs)
    } else {
        RT::P(c, id, body.to_vec())
    };
    Some((t, hdr + len))
}

fn lib_enc(t: StructureTag) -> Vec<u8> {
    let mut buf = BytesMut::new();
    encode_into(&mut buf, t).expect("encode_into");
    buf.to_vec()
}

// ---------------------------------------------------------------- generator

struct Rng(u64);
impl Rng {
    fn next(&mut self) -> u64 {
        // splitmix64
        self.0 = self.0.wrapping_add(0x9E3779B97F4A7C15);
        let mut z = self.0;
        z = (z ^ (z >> 30)).wrapping_mul(0xBF58476D1CE4E5B9);
        z = (z ^ (z >> 27)).wrapping_mul(0x94D049BB133111EB);
        z ^ (z >> 31)
    }
    fn below(&mut self, n: u64) -> u64 {
        self.next() % n
    }
}

fn gen_tree(r: &mut Rng, depth: usize) -> RT {
    let c = r.below(4) as u8;
    let id = r.below(31) as u8;
    if depth == 0 || r.below(3) == 0 {
        let len = match r.below(8) {
            0 => 0,
            1 => 126 + r.below(4),
            2 => 254 + r.below(4),
            _ => r.below(20),
        } as usize;
        RT::P(c, id, (0..len).map(|_| r.next() as u8).collect())
    } else {
        let n = r.below(5) as usize;
        RT::C(c, id, (0..n).map(|_| gen_tree(r, depth - 1)).collect())
    }
}

fn count_nodes(t: &RT) -> usize {
    match t {
        RT::P(..) => 1,
        RT::C(_, _, s) => 1 + s.iter().map(count_nodes).sum::<usize>(),
    }
}

// ---------------------------------------------------------------- H1: round trip, canonical, trailing bytes

#[test]
fn h1_roundtrip_random_trees_canonical_and_trailing() {
    let mut r = Rng(0x4833);
    for n in 0..3000 {
        let t = gen_tree(&mut r, (n % 6) as usize);
        let st = to_st(&t);
        let enc = lib_enc(st.clone());
        assert_eq!(
            enc,
            ref_enc(&t, &mut std::iter::empty()),
            "C07: the encoder's output must be the canonical (minimal definite length) encoding"
        );
        let trailing: Vec<u8> = (0..r.below(6)).map(|_| r.next() as u8).collect();
        let mut input = enc.clone();
        input.extend(&trailing);
        let (rest, back) = parse_tag(&input).expect("C07: the encoder's output must parse");
        assert_eq!(back, st, "C07: parse(encode(t)) must be t");
        assert_eq!(rest, &trailing[..], "C07: trailing bytes must be left untouched");
    }
}

// ---------------------------------------------------------------- H2: length form boundaries

#[test]
fn h2_length_boundaries_primitive_and_constructed() {
    let lens: [usize; 17] = [
        0, 1, 126, 127, 128, 129, 254, 255, 256, 257, 65534, 65535, 65536, 65537, 16777215,
        16777216, 16777217,
    ];
    for &l in &lens {
        // primitive of length l
        let t = RT::P(2, 7, (0..l).map(|i| (i * 31 + 7) as u8).collect());
        let enc = lib_enc(to_st(&t));
        let exp = ref_enc(&t, &mut std::iter::empty());
        assert!(enc == exp, "C07: primitive of length {} not canonically encoded", l);
        let (rest, back) = parse_tag(&enc).expect("parse");
        assert!(rest.is_empty());
        assert!(back == to_st(&t), "C07: primitive of length {} does not round-trip", l);

        // constructed whose content is exactly l octets: one primitive child sized to fit
        if l >= 2 {
            // child header is 2 octets for payload < 128, 3 for < 256, 4 for < 65536, 5 for < 2^24, 6 beyond
            let mut found = None;
            for hdr in 2..=6usize {
                if l < hdr {
                    continue;
                }
                let pl = l - hdr;
                let need = if pl < 128 {
                    2
                } else if pl < 256 {
                    3
                } else if pl < 65536 {
                    4
                } else if pl < 16777216 {
                    5
                } else {
                    6
                };
                if need == hdr {
                    found = Some(pl);
                    break;
                }
            }
            let children = match found {
                Some(pl) => vec![RT::P(0, 4, vec![0xA5; pl])],
                // e.g. l = 130: 128+2 doesn't fit either form; use two children
                None => vec![RT::P(0, 4, vec![0xA5; l - 2 - 2]), RT::P(0, 5, vec![])],
            };
            let t = RT::C(1, 3, children);
            let enc = lib_enc(to_st(&t));
            let exp = ref_enc(&t, &mut std::iter::empty());
            let (d, used) = ref_dec(&exp).expect("ref decode");
            assert_eq!(used, exp.len());
            assert!(d == t);
            assert!(enc == exp, "C07: constructed with content length {} not canonical", l);
            let (rest, back) = parse_tag(&enc).expect("parse");
            assert!(rest.is_empty());
            assert!(back == to_st(&t), "C07: constructed of content length {} does not round-trip", l);
        }
    }
}

// ---------------------------------------------------------------- H3: INTEGER / ENUMERATED / BOOLEAN

fn ref_int(v: i64) -> Vec<u8> {
    // shortest two's complement, computed arithmetically (independent of the library's byte scan)
    let mut n = 1;
    while n < 8 {
        let bits = 8 * n as u32;
        let lo = -(1i128 << (bits - 1));
        let hi = (1i128 << (bits - 1)) - 1;
        if (v as i128) >= lo && (v as i128) <= hi {
            break;
        }
        n += 1;
    }
    (0..n).rev().map(|k| ((v as i128) >> (8 * k)) as u8).collect()
}

fn dec_int(b: &[u8]) -> i128 {
    let mut v: i128 = if b[0] & 0x80 != 0 { -1 } else { 0 };
    for &o in b {
        v = v << 8 | o as i128;
    }
    v
}

#[test]
fn h3_integer_enumerated_boolean() {
    let mut vals: Vec<i64> = vec![0, 1, -1, i64::MAX, i64::MIN, i64::MIN + 1, i64::MAX - 1];
    for k in 0..63u32 {
        let p = 1i64 << k;
        for d in -3i64..=3 {
            vals.push(p.wrapping_add(d));
            vals.push(p.wrapping_neg().wrapping_add(d));
        }
    }
    let mut r = Rng(7);
    for _ in 0..20000 {
        let x = r.next() as i64;
        vals.push(x >> r.below(64));
    }
    for v in vals {
        for (what, st) in [
            (
                "INTEGER",
                Tag::Integer(Integer { inner: v, ..Default::default() }).into_structure(),
            ),
            (
                "ENUMERATED",
                Tag::Enumerated(Enumerated { inner: v, ..Default::default() }).into_structure(),
            ),
        ] {
            let pl = match &st.payload {
                PL::P(p) => p.clone(),
                _ => panic!("primitive expected"),
            };
            assert_eq!(pl, ref_int(v), "C07: {} {} must be the shortest two's complement", what, v);
            assert_eq!(dec_int(&pl), v as i128, "C07: {} {} must decode to itself", what, v);
            assert_eq!(st.id, if what == "INTEGER" { 2 } else { 10 });
            let enc = lib_enc(st.clone());
            assert_eq!(enc[1] as usize, pl.len());
            let (rest, back) = parse_tag(&enc).unwrap();
            assert!(rest.is_empty());
            assert_eq!(back, st);
            if v >= 0 {
                assert_eq!(parse_uint(&pl).unwrap().1, v as u64);
            }
        }
    }
    let t = lib_enc(Tag::Boolean(Boolean { inner: true, ..Default::default() }).into_structure());
    assert_eq!(t, vec![0x01, 0x01, 0xFF], "C07: BOOLEAN true is 0xFF");
    let f = lib_enc(Tag::Boolean(Boolean { inner: false, ..Default::default() }).into_structure());
    assert_eq!(f, vec![0x01, 0x01, 0x00]);
    let t = lib_enc(
        Tag::Boolean(Boolean { id: 30, class: TagClass::Private, inner: true }).into_structure(),
    );
    assert_eq!(t, vec![0xDE, 0x01, 0xFF]);
}

// ---------------------------------------------------------------- H4: non-minimal lengths

#[test]
fn h4_nonminimal_lengths_match_reference_decoder() {
    let mut r = Rng(0xBEEF);
    for n in 0..3000 {
        let t = gen_tree(&mut r, (n % 5) as usize);
        let nodes = count_nodes(&t);
        let pads: Vec<usize> = (0..nodes)
            .map(|_| match r.below(6) {
                0 => 0,
                1 => 1,
                2 => r.below(8) as usize,
                3 => 7 + r.below(3) as usize, // around the 8-octet mark
                4 => 120 + r.below(5) as usize, // up to 124 + <=2 significant = 126
                _ => r.below(40) as usize,
            })
            .collect();
        let enc = ref_enc(&t, &mut pads.clone().into_iter());
        let (d, used) = ref_dec(&enc).expect("reference decoder accepts the input");
        assert_eq!(used, enc.len());
        assert_eq!(d, t);
        let trailing = [0x30u8, 0x84, 0x00];
        let mut input = enc.clone();
        input.extend(trailing);
        match parse_tag(&input) {
            Ok((rest, back)) => {
                assert_eq!(
                    from_st(&back),
                    t,
                    "C07: a valid input with non-minimal lengths must parse to the reference tree"
                );
                assert_eq!(rest, &trailing[..]);
            }
            Err(e) => panic!(
                "C07: a valid definite-length input (pads {:?}) must parse, got {:?}",
                pads, e
            ),
        }
    }
    // hand-picked: 126 length octets, all zero but the last
    let mut v = vec![0x04, 0x80 | 126];
    v.extend(std::iter::repeat(0).take(125));
    v.push(3);
    v.extend([1, 2, 3, 9]);
    let (rest, t) = parse_tag(&v).unwrap();
    assert_eq!(rest, &[9]);
    assert_eq!(t.payload, PL::P(vec![1, 2, 3]));
    // long form of zero, on a constructed and on a primitive
    let v = [0x30, 0x82, 0, 8, 0x04, 0x81, 0x00, 0x31, 0x83, 0, 0, 0];
    let (rest, t) = parse_tag(&v).unwrap();
    assert!(rest.is_empty());
    assert_eq!(
        from_st(&t),
        RT::C(0, 16, vec![RT::P(0, 4, vec![]), RT::C(0, 17, vec![])])
    );
}

// ---------------------------------------------------------------- H5: encode_into appends; typed structures

#[test]
fn h5_encode_into_appends_and_typed_structures() {
    let mut buf = BytesMut::from(&b"\x01\x02\x03"[..]);
    let tag = Tag::Sequence(Sequence {
        inner: vec![
            Tag::Null(Null::default()),
            Tag::OctetString(OctetString { inner: vec![0; 200], ..Default::default() }),
            Tag::Set(Set {
                inner: vec![Tag::ExplicitTag(ExplicitTag {
                    id: 5,
                    class: TagClass::Context,
                    inner: Box::new(Tag::Integer(Integer { inner: -129, ..Default::default() })),
                })],
                ..Default::default()
            }),
        ],
        ..Default::default()
    });
    let st = tag.into_structure();
    encode_into(&mut buf, st.clone()).unwrap();
    encode_into(&mut buf, st.clone()).unwrap();
    assert_eq!(&buf[..3], b"\x01\x02\x03", "encode_into must append");
    let (rest, a) = parse_tag(&buf[3..]).unwrap();
    let (rest, b) = parse_tag(rest).unwrap();
    assert!(rest.is_empty());
    assert_eq!(a, st);
    assert_eq!(b, st);
    let (d, _) = ref_dec(&buf[3..]).unwrap();
    assert_eq!(d, from_st(&st));
}

// ---------------------------------------------------------------- H6: prefixes are incomplete, never a wrong tree

#[test]
fn h6_every_strict_prefix_is_incomplete() {
    let mut r = Rng(99);
    for n in 0..300 {
        let t = gen_tree(&mut r, (n % 4) as usize);
        let nodes = count_nodes(&t);
        let pads: Vec<usize> = (0..nodes).map(|_| r.below(4) as usize).collect();
        let enc = ref_enc(&t, &mut pads.into_iter());
        for cut in 0..enc.len() {
            let mut p = lber::Parser::new();
            match p.parse(&enc[..cut]) {
                Err(e) if e.is_incomplete() => {}
                other => panic!("prefix {} of {} gave {:?}", cut, enc.len(), other),
            }
        }
    }
}

// ---------------------------------------------------------------- H7: through the client

#[test]
fn h7_client_accepts_nonminimal_lengths_and_sends_canonical_request() {
    use tokio::io::{AsyncReadExt, AsyncWriteExt};
    let rt = tokio::runtime::Builder::new_multi_thread()
        .worker_threads(2)
        .enable_all()
        .build()
        .unwrap();
    rt.block_on(async {
        let listener = tokio::net::TcpListener::bind("127.0.0.1:0").await.unwrap();
        let port = listener.local_addr().unwrap().port();
        let server = tokio::spawn(async move {
            let (mut s, _) = listener.accept().await.unwrap();
            let mut req = Vec::new();
            let mut tmp = [0u8; 1024];
            loop {
                let n = s.read(&mut tmp).await.unwrap();
                assert!(n > 0);
                req.extend(&tmp[..n]);
                if let Some((_, used)) = ref_dec(&req) {
                    assert_eq!(used, req.len());
                    break;
                }
            }
            // BindResponse, success, every length in a different non-minimal form
            let resp: Vec<u8> = vec![
                0x30, 0x84, 0, 0, 0, 25, // envelope
                0x02, 0x81, 0x01, 0x01, // id 1
                0x61, 0x89, 0, 0, 0, 0, 0, 0, 0, 0, 10, // BindResponse
                0x0a, 0x01, 0x00, // success
                0x04, 0x81, 0x00, // matched
                0x04, 0x82, 0x00, 0x00, // text
            ];
            s.write_all(&resp).await.unwrap();
            let mut rest = Vec::new();
            let _ = s.read_to_end(&mut rest).await;
            req
        });
        let (conn, mut ldap) = ldap3::LdapConnAsync::new(&format!("ldap://127.0.0.1:{}", port))
            .await
            .unwrap();
        ldap3::drive!(conn);
        let pw = "p".repeat(130);
        let res = tokio::time::timeout(
            std::time::Duration::from_secs(20),
            ldap.simple_bind("cn=x", &pw),
        )
        .await
        .expect("hang guard")
        .expect("C07: a response with non-minimal definite lengths must be accepted");
        assert_eq!(res.rc, 0);
        drop(ldap);
        let req = server.await.unwrap();
        let (t, _) = ref_dec(&req).unwrap();
        assert_eq!(
            req,
            ref_enc(&t, &mut std::iter::empty()),
            "C07: the request on the wire must be canonically encoded"
        );
        let (_, st) = parse_tag(&req).unwrap();
        assert_eq!(from_st(&st), t);
    });
}
